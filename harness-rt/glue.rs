// Fixed, hand-written glue included by every generated Rust harness crate
// (`include!`).  Generic over the generated packet types; everything observable
// is reported through pdlv_core::harness types.
use pdl_runtime::{DecodeError, EncodeError, Packet};
use pdlv_core::harness::*;
use serde::{de::DeserializeOwned, Serialize};
use serde_json::Value;
use std::alloc::{GlobalAlloc, Layout, System};
use std::convert::TryFrom;
use std::fmt::Debug;
use std::panic::{catch_unwind, AssertUnwindSafe};
use std::sync::atomic::{AtomicUsize, Ordering};

// ---------------------------------------------------------------- counting allocator

pub struct Counting;
pub static ALLOCATED: AtomicUsize = AtomicUsize::new(0);
/// single requests above this are refused (the process aborts; the journal names the case)
pub const ALLOC_REFUSE: usize = 1 << 30;

unsafe impl GlobalAlloc for Counting {
    unsafe fn alloc(&self, l: Layout) -> *mut u8 {
        if l.size() > ALLOC_REFUSE {
            let msg = b"HUGE-ALLOC request refused by the harness allocator\n";
            libc_write(2, msg);
            return std::ptr::null_mut();
        }
        ALLOCATED.fetch_add(l.size(), Ordering::Relaxed);
        System.alloc(l)
    }
    unsafe fn dealloc(&self, p: *mut u8, l: Layout) {
        System.dealloc(p, l)
    }
    unsafe fn realloc(&self, p: *mut u8, l: Layout, new: usize) -> *mut u8 {
        if new > ALLOC_REFUSE {
            let msg = b"HUGE-ALLOC request refused by the harness allocator\n";
            libc_write(2, msg);
            return std::ptr::null_mut();
        }
        if new > l.size() {
            ALLOCATED.fetch_add(new - l.size(), Ordering::Relaxed);
        }
        System.realloc(p, l, new)
    }
}

extern "C" {
    fn write(fd: i32, buf: *const u8, n: usize) -> isize;
}
unsafe fn libc_write(fd: i32, b: &[u8]) {
    let _ = write(fd, b.as_ptr(), b.len());
}

#[global_allocator]
static GLOBAL: Counting = Counting;

// ---------------------------------------------------------------- helpers

fn variant_name<E: Debug>(e: &E) -> String {
    let s = format!("{:?}", e);
    s.split(|c: char| !c.is_alphanumeric() && c != '_').next().unwrap_or("").to_string()
}

fn panic_msg(e: Box<dyn std::any::Any + Send>) -> String {
    if let Some(s) = e.downcast_ref::<&str>() {
        s.to_string()
    } else if let Some(s) = e.downcast_ref::<String>() {
        s.clone()
    } else {
        "non-string panic".into()
    }
}

fn guard<T, E: Debug>(f: impl FnOnce() -> Result<T, E>) -> Out<T> {
    match catch_unwind(AssertUnwindSafe(f)) {
        Ok(Ok(v)) => Out::Ok(v),
        Ok(Err(e)) => Out::Err { kind: variant_name(&e), detail: format!("{:?}", e).chars().take(200).collect() },
        Err(p) => Out::Panic(panic_msg(p)),
    }
}

fn guard_plain<T>(f: impl FnOnce() -> T) -> Out<T> {
    guard::<T, ()>(|| Ok(f()))
}

fn to_json<T: Serialize>(v: &T) -> Value {
    serde_json::to_value(v).unwrap_or(Value::String("<<unserializable>>".into()))
}

fn is_suffix(whole: &[u8], rest: &[u8]) -> bool {
    rest.len() <= whole.len() && unsafe { rest.as_ptr().add(rest.len()) == whole.as_ptr().add(whole.len()) }
}

// ---------------------------------------------------------------- per-type operations

pub fn type_ops<T>(desc: usize, name: &str) -> TypeOps
where
    T: Packet + Serialize + DeserializeOwned + PartialEq + Debug + Clone + 'static,
{
    TypeOps { desc, name: name.to_string(), dec: Box::new(dec::<T>), enc: Box::new(enc::<T>), spec: None }
}

fn dec<T>(b: &[u8]) -> DecReport
where
    T: Packet + Serialize + DeserializeOwned + PartialEq + Debug + Clone + 'static,
{
    // work on an exact-size private copy so that out-of-bounds reads cannot land in slack
    let owned: Vec<u8> = b.to_vec();
    let b: &[u8] = &owned;
    let before = ALLOCATED.load(Ordering::Relaxed);
    let mut suffix_ok = true;
    let d = guard(|| T::decode(b));
    let alloc = ALLOCATED.load(Ordering::Relaxed) - before;
    let decode = match d {
        Out::Ok((v, rest)) => {
            suffix_ok = is_suffix(b, rest);
            Out::Ok((to_json(&v), rest.len()))
        }
        Out::Err { kind, detail } => Out::Err { kind, detail },
        Out::Panic(m) => Out::Panic(m),
    };
    let fullv = guard(|| T::decode_full(b));
    let reenc = match &fullv {
        Out::Ok(v) => Some(guard(|| v.encode_to_vec())),
        _ => None,
    };
    let full = match fullv {
        Out::Ok(v) => Out::Ok(to_json(&v)),
        Out::Err { kind, detail } => Out::Err { kind, detail },
        Out::Panic(m) => Out::Panic(m),
    };
    let mut s: &[u8] = b;
    let m = guard(|| T::decode_mut(&mut s));
    let mut_ok;
    let mutr = match m {
        Out::Ok(_) => {
            mut_ok = match &decode {
                Out::Ok((_, rest_len)) => is_suffix(b, s) && s.len() == *rest_len,
                _ => false,
            };
            Out::Ok(s.len())
        }
        Out::Err { kind, detail } => {
            mut_ok = s.as_ptr() == b.as_ptr() && s.len() == b.len();
            Out::Err { kind, detail }
        }
        Out::Panic(m) => {
            mut_ok = true;
            Out::Panic(m)
        }
    };
    DecReport { decode, suffix_ok, full, mutr, mut_ok, reenc, alloc }
}

fn enc<T>(j: &Value, prefix: &[u8]) -> EncReport
where
    T: Packet + Serialize + DeserializeOwned + PartialEq + Debug + Clone + 'static,
{
    let v: T = match catch_unwind(AssertUnwindSafe(|| serde_json::from_value::<T>(j.clone()))) {
        Ok(Ok(v)) => v,
        Ok(Err(e)) => {
            fn na<X>() -> Out<X> {
                Out::Err { kind: "NoValue".into(), detail: String::new() }
            }
            return EncReport { from_json: Err(e.to_string()), len: na(), to_vec: na(), to_bytes: na(), into_vec: na(), into_bytesmut: na(), prefixed: na(), rt: None, json_back: None };
        }
        Err(p) => {
            fn na<X>() -> Out<X> {
                Out::Err { kind: "NoValue".into(), detail: String::new() }
            }
            return EncReport { from_json: Err(format!("panic: {}", panic_msg(p))), len: na(), to_vec: na(), to_bytes: na(), into_vec: na(), into_bytesmut: na(), prefixed: na(), rt: None, json_back: None };
        }
    };
    let len = guard_plain(|| v.encoded_len());
    let to_vec = guard(|| v.encode_to_vec());
    let to_bytes = guard(|| v.encode_to_bytes().map(|b| b.to_vec()));
    let into_vec = guard(|| {
        let mut buf: Vec<u8> = Vec::new();
        v.encode(&mut buf).map(|_| buf)
    });
    let into_bytesmut = guard(|| {
        let mut buf = bytes::BytesMut::new();
        v.encode(&mut buf).map(|_| buf.to_vec())
    });
    let prefixed = guard(|| {
        let mut buf: Vec<u8> = prefix.to_vec();
        v.encode(&mut buf).map(|_| buf)
    });
    let rt = match &to_vec {
        Out::Ok(bytes) => Some(match guard(|| T::decode_full(bytes)) {
            Out::Ok(d) => Out::Ok((d == v, to_json(&d))),
            Out::Err { kind, detail } => Out::Err { kind, detail },
            Out::Panic(m) => Out::Panic(m),
        }),
        _ => None,
    };
    EncReport { from_json: Ok(()), len, to_vec, to_bytes, into_vec, into_bytesmut, prefixed, rt, json_back: Some(to_json(&v)) }
}

/// specialize() wrapper: `f` is `Parent::specialize`.
pub fn with_spec<P, C>(mut ops: TypeOps, f: fn(&P) -> Result<C, DecodeError>) -> TypeOps
where
    P: DeserializeOwned + 'static,
    C: Serialize + 'static,
{
    ops.spec = Some(Box::new(move |j: &Value| {
        let p: P = match serde_json::from_value(j.clone()) {
            Ok(p) => p,
            Err(e) => return Out::Err { kind: "NoValue".into(), detail: e.to_string() },
        };
        match guard(|| f(&p)) {
            Out::Ok(c) => Out::Ok(to_json(&c)),
            Out::Err { kind, detail } => Out::Err { kind, detail },
            Out::Panic(m) => Out::Panic(m),
        }
    }));
    ops
}

pub fn conv_ops<A, D>(desc: usize, ancestor: &str, descendant: &str) -> ConvOps
where
    A: Serialize + DeserializeOwned + 'static,
    D: Serialize + DeserializeOwned + 'static,
    for<'x> D: TryFrom<&'x A, Error = DecodeError>,
    for<'x> A: TryFrom<&'x D, Error = EncodeError>,
{
    ConvOps {
        desc,
        ancestor: ancestor.to_string(),
        descendant: descendant.to_string(),
        down: Box::new(|j: &Value| {
            let a: A = match serde_json::from_value(j.clone()) {
                Ok(a) => a,
                Err(e) => return Out::Err { kind: "NoValue".into(), detail: e.to_string() },
            };
            match guard(|| D::try_from(&a)) {
                Out::Ok(d) => Out::Ok(to_json(&d)),
                Out::Err { kind, detail } => Out::Err { kind, detail },
                Out::Panic(m) => Out::Panic(m),
            }
        }),
        up: Box::new(|j: &Value| {
            let d: D = match serde_json::from_value(j.clone()) {
                Ok(d) => d,
                Err(e) => return Out::Err { kind: "NoValue".into(), detail: e.to_string() },
            };
            match guard(|| A::try_from(&d)) {
                Out::Ok(a) => Out::Ok(to_json(&a)),
                Out::Err { kind, detail } => Out::Err { kind, detail },
                Out::Panic(m) => Out::Panic(m),
            }
        }),
    }
}

//! C10 (front end), coverage-guided: arbitrary text through parse -> analyze -> diagnostics rendering ->
//! JSON generator must not panic.  The input octets are either taken as text (lossy UTF-8) or decoded
//! as a token stream over the language's vocabulary, or as a choice stream for the engine's absurd-AST /
//! well-formed description generators (selected by the low two bits of the first octet), so that libFuzzer's
//! coverage feedback steers the structured generators too.  A panic whose message matches a
//! known finding of /verif/known_findings.txt (property C10, op parse/analyze/emit/generate:json) is
//! tolerated and counted; any other panic aborts, which libFuzzer saves as a crash artifact.
#![no_main]
use libfuzzer_sys::fuzz_target;
use std::cell::RefCell;
use std::panic::{catch_unwind, AssertUnwindSafe};
use std::sync::OnceLock;

thread_local! {
    static LAST: RefCell<String> = RefCell::new(String::new());
}

/// (op, pattern) of tolerated panics: outcome "panic:<prefix>" or "~<substring>"
fn allow() -> &'static Vec<(String, String)> {
    static A: OnceLock<Vec<(String, String)>> = OnceLock::new();
    A.get_or_init(|| {
        std::panic::set_hook(Box::new(|info| {
            let m = if let Some(s) = info.payload().downcast_ref::<&str>() { s.to_string() } else if let Some(s) = info.payload().downcast_ref::<String>() { s.clone() } else { "non-string panic".into() };
            LAST.with(|l| *l.borrow_mut() = m);
        }));
        let mut v = vec![];
        let path = std::env::var("PDLV_KF").unwrap_or_else(|_| "/verif/known_findings.txt".into());
        for l in std::fs::read_to_string(path).unwrap_or_default().lines() {
            if !l.starts_with("finding: property=C10 ") {
                continue;
            }
            let get = |k: &str| l.find(k).map(|i| &l[i + k.len()..]);
            let op = get(" op=").and_then(|r| r.split(' ').next()).unwrap_or("").to_string();
            let outcome = get(" outcome=\"").and_then(|r| r.split('"').next()).unwrap_or("").to_string();
            if ["parse", "analyze", "emit", "generate:json", "*"].contains(&op.as_str()) {
                v.push((op, outcome));
            }
        }
        v
    })
}

fn tolerated(op: &str, msg: &str) -> bool {
    allow().iter().any(|(o, pat)| {
        (o == op || o == "*")
            && if let Some(sub) = pat.strip_prefix('~') {
                msg.contains(sub)
            } else if let Some(pre) = pat.strip_prefix("panic:") {
                msg.starts_with(pre)
            } else {
                pat.is_empty()
            }
    })
}

fn stage<T>(op: &str, text: &str, f: impl FnOnce() -> T) -> Option<T> {
    match catch_unwind(AssertUnwindSafe(f)) {
        Ok(v) => Some(v),
        Err(_) => {
            let msg = LAST.with(|l| l.borrow().clone());
            if tolerated(op, &msg) {
                None
            } else {
                eprintln!("C10-FUZZ-PANIC op={op} message={msg:?}\n---- text ----\n{text}\n--------------");
                std::process::abort();
            }
        }
    }
}

fuzz_target!(|data: &[u8]| {
    let _ = allow();
    let text = pdlv_core::fuzzdec::text_of(data);
    let mut db = pdl_compiler::ast::SourceDatabase::new();
    let Some(parsed) = stage("parse", &text, || pdl_compiler::parser::parse_inline(&mut db, "fuzz.pdl", text.clone())) else { return };
    let Ok(file) = parsed else { return };
    let Some(analyzed) = stage("analyze", &text, || pdl_compiler::analyzer::analyze(&file)) else { return };
    match analyzed {
        Err(diags) => {
            let mut buf = codespan_reporting::term::termcolor::Buffer::no_color();
            let _ = stage("emit", &text, || diags.emit(&db, &mut buf));
        }
        Ok(_) => {
            let _ = stage("generate:json", &text, || pdl_compiler::backends::json::generate(&file));
        }
    }
});

//! Choice streams.  Every generator in the engine is an ordinary function that
//! draws from a `Src`, a finite stream of u32 produced by proptest
//! (`vec(any::<u32>(), n)`).  The stream is the only source of randomness, so
//! proptest's shrinking of the vector (shorter, smaller numbers) shrinks the
//! generated description / value / input, and a saved stream replays exactly.
//! An exhausted stream yields 0, i.e. the simplest alternative everywhere.
use proptest::prelude::*;
use proptest::strategy::ValueTree;
use proptest::test_runner::{Config, RngAlgorithm, RngSeed, TestRng, TestRunner};

pub struct Src<'a> {
    data: &'a [u32],
    pos: usize,
}

impl<'a> Src<'a> {
    pub fn new(data: &'a [u32]) -> Src<'a> {
        Src { data, pos: 0 }
    }
    pub fn raw(&mut self) -> u32 {
        let v = self.data.get(self.pos).copied().unwrap_or(0);
        self.pos += 1;
        v
    }
    pub fn used(&self) -> usize {
        self.pos
    }
    /// uniform in 0..n, monotone in the raw value (so shrinking the raw value shrinks the choice)
    pub fn below(&mut self, n: usize) -> usize {
        if n <= 1 {
            // still consume, keeps streams aligned under edits of n
            self.raw();
            return 0;
        }
        ((self.raw() as u64 * n as u64) >> 32) as usize
    }
    pub fn range(&mut self, lo: u64, hi_incl: u64) -> u64 {
        debug_assert!(lo <= hi_incl);
        let span = hi_incl - lo;
        if span == u64::MAX {
            return self.u64();
        }
        let n = span + 1;
        let r = self.u64();
        lo + ((r as u128 * n as u128) >> 64) as u64
    }
    pub fn u64(&mut self) -> u64 {
        ((self.raw() as u64) << 32) | self.raw() as u64
    }
    pub fn bool(&mut self) -> bool {
        self.below(2) == 1
    }
    /// true with probability num/den
    pub fn chance(&mut self, num: usize, den: usize) -> bool {
        self.below(den) >= den - num
    }
    pub fn pick<'b, T>(&mut self, xs: &'b [T]) -> &'b T {
        &xs[self.below(xs.len())]
    }
    /// weighted choice, returns index
    pub fn weighted(&mut self, ws: &[usize]) -> usize {
        let tot: usize = ws.iter().sum();
        let mut r = self.below(tot.max(1));
        for (i, w) in ws.iter().enumerate() {
            if r < *w {
                return i;
            }
            r -= w;
        }
        0
    }
    /// a value of `w` bits biased to boundaries
    pub fn bits(&mut self, w: u32) -> u64 {
        let max = if w >= 64 { u64::MAX } else { (1u64 << w) - 1 };
        match self.below(8) {
            0 => 0,
            1 => 1.min(max),
            2 => max,
            3 => max - 1.min(max),
            4 => {
                let k = self.below(w.max(1) as usize) as u32;
                1u64 << k
            }
            _ => self.range(0, max),
        }
    }
}

pub fn mix(seed: u64, tag: &str) -> u64 {
    // FNV-1a over the tag, mixed with the seed by splitmix64
    let mut h: u64 = 0xcbf29ce484222325;
    for b in tag.bytes() {
        h ^= b as u64;
        h = h.wrapping_mul(0x100000001b3);
    }
    let mut z = seed.wrapping_add(h).wrapping_add(0x9e3779b97f4a7c15);
    z = (z ^ (z >> 30)).wrapping_mul(0xbf58476d1ce4e5b9);
    z = (z ^ (z >> 27)).wrapping_mul(0x94d049bb133111eb);
    z ^ (z >> 31)
}

/// Shrink budget per failing run (slow out-of-process targets lower it).
pub static MAX_SHRINK: std::sync::atomic::AtomicU32 = std::sync::atomic::AtomicU32::new(3000);

pub fn runner(seed: u64, tag: &str, cases: u32) -> TestRunner {
    let s = mix(seed, tag);
    let mut bytes = [0u8; 32];
    for i in 0..4 {
        bytes[i * 8..i * 8 + 8].copy_from_slice(&mix(s, &format!("k{i}")).to_le_bytes());
    }
    let cfg = Config { cases, failure_persistence: None, max_shrink_iters: MAX_SHRINK.load(std::sync::atomic::Ordering::Relaxed), rng_seed: RngSeed::Fixed(s), ..Config::default() };
    TestRunner::new_with_rng(cfg, TestRng::from_seed(RngAlgorithm::ChaCha, &bytes))
}

pub fn stream(len: usize) -> impl Strategy<Value = Vec<u32>> {
    proptest::collection::vec(any::<u32>(), len..=len)
}

/// Draw `n` independent choice streams deterministically (no shrinking): used to
/// draw batches of descriptions.
pub fn draw_streams(seed: u64, tag: &str, n: usize, len: usize) -> Vec<Vec<u32>> {
    let mut r = runner(seed, tag, 1);
    let st = stream(len);
    (0..n).map(|_| st.new_tree(&mut r).unwrap().current()).collect()
}

/// Outcome of a property loop.
pub struct Failure {
    pub stream: Vec<u32>,
    pub message: String,
}

/// Run `check` on `cases` streams of length `len`; on failure proptest shrinks the
/// stream and the minimal failing stream is returned.  `check` returns Err(msg)
/// for a violation.
pub fn run_streams(seed: u64, tag: &str, cases: u32, len: usize, check: impl FnMut(&[u32]) -> Result<(), String>) -> Option<Failure> {
    let mut r = runner(seed, tag, cases);
    let check = std::cell::RefCell::new(check);
    let res = r.run(&stream(len), |v| (check.borrow_mut())(&v).map_err(|m| proptest::test_runner::TestCaseError::fail(m)));
    match res {
        Ok(()) => None,
        Err(proptest::test_runner::TestError::Fail(reason, v)) => Some(Failure { stream: v, message: reason.message().to_string() }),
        Err(proptest::test_runner::TestError::Abort(reason)) => Some(Failure { stream: vec![], message: format!("aborted: {}", reason.message()) }),
    }
}

//! Entry point of the generated Rust harness binaries.
use crate::evidence::{fnv, Acc};
use crate::harness::*;
use crate::kf::Kf;
use crate::model::*;
use crate::props::*;
use serde_json::{json, Value};

fn arg(args: &[String], k: &str) -> Option<String> {
    args.iter().position(|a| a == k).and_then(|i| args.get(i + 1).cloned())
}

fn enum_boundaries(width: u32, tags: &[Tag], backing: u32) -> Vec<u64> {
    let mut v: Vec<u64> = vec![0, 1, 2];
    let bmax = if backing >= 64 { u64::MAX } else { (1u64 << backing) - 1 };
    let wmax = if width >= 64 { u64::MAX } else { (1u64 << width) - 1 };
    let mut around = |x: u64, v: &mut Vec<u64>| {
        for d in 0..=2u64 {
            v.push(x.saturating_sub(d));
            v.push(x.saturating_add(d));
        }
    };
    around(wmax, &mut v);
    around(bmax, &mut v);
    if width < 64 {
        around(1u64 << width, &mut v);
    }
    for t in tags {
        match t {
            Tag::Value { v: x, .. } => around(*x, &mut v),
            Tag::Range { lo, hi, tags, .. } => {
                around(*lo, &mut v);
                around(*hi, &mut v);
                around(lo + (hi - lo) / 2, &mut v);
                for (_, x) in tags {
                    around(*x, &mut v);
                }
            }
            _ => {}
        }
    }
    v.retain(|x| *x <= bmax);
    v.sort();
    v.dedup();
    v
}

fn variant_of(debug: &str) -> &str {
    debug.split('(').next().unwrap_or("")
}

fn run_enums(ctx: &Ctx, acc: &mut Acc) {
    for (ei, e) in ctx.table.enums.iter().enumerate() {
        if ei % ctx.shard.1 != ctx.shard.0 {
            continue;
        }
        let bd = &ctx.batch.descs[e.desc];
        let Some((width, tags)) = bd.desc.enum_tags(&e.name) else { continue };
        acc.p.types += 1;
        let exhaustive = e.backing <= 16;
        let xs: Vec<u64> = if exhaustive {
            (0..(1u64 << e.backing)).collect()
        } else {
            let mut v = enum_boundaries(width, tags, e.backing);
            let n = if ctx.thorough { 20000 } else { 2000 };
            for st in crate::choice::draw_streams(ctx.seed, &format!("C15/{}/{}", bd.idx, e.name), n, 2) {
                let mut s = crate::choice::Src::new(&st);
                let bmax = if e.backing >= 64 { u64::MAX } else { (1u64 << e.backing) - 1 };
                v.push(s.range(0, bmax));
            }
            v
        };
        if exhaustive {
            acc.p.exhaustive_subspaces += 1;
        }
        let mut first_bad: Option<(u64, String, String)> = None;
        let wmax = if width >= 64 { u64::MAX } else { (1u64 << width) - 1 };
        for x in xs {
            let Some(o) = (e.try_from)(x) else { continue };
            let cls = classify_enum(width, tags, x);
            let label = match &cls {
                EnumClass::Named(_) => "named",
                EnumClass::InRange(_) => "in-range",
                EnumClass::Default(_) => "default",
                EnumClass::Invalid => {
                    if x > wmax {
                        "invalid:>=2^w"
                    } else {
                        "invalid"
                    }
                }
            };
            let mut bad: Option<(String, String)> = None;
            match (&cls, &o) {
                (_, Out::Panic(m)) => bad = Some((format!("panic:{}", panic_class(m)), m.clone())),
                (EnumClass::Invalid, Out::Ok(None)) => {}
                (EnumClass::Invalid, Out::Ok(Some(v))) => bad = Some(("accepts-invalid".into(), format!("{x} -> {}", v.debug))),
                (_, Out::Ok(None)) => bad = Some(("rejects-valid".into(), format!("{x} is {:?}", cls))),
                (EnumClass::Named(t) | EnumClass::InRange(t) | EnumClass::Default(t), Out::Ok(Some(v))) => {
                    if variant_of(&v.debug) != t {
                        bad = Some(("wrong-variant".into(), format!("{x}: expected {t}, got {}", v.debug)));
                    } else if v.back != x {
                        bad = Some(("back-conversion".into(), format!("{x} -> {} -> {}", v.debug, v.back)));
                    } else if let Some((ty, w)) = v.wide.iter().find(|(_, w)| *w != x as i128) {
                        bad = Some(("widening".into(), format!("{x} -> {} as {ty} = {w}", v.debug)));
                    }
                }
                (_, Out::Err { kind, .. }) => bad = Some((format!("error:{kind}"), String::new())),
            }
            acc.eval(label, if bad.is_some() { "bad" } else { "ok" });
            let near = {
                let b = enum_boundaries(width, tags, e.backing);
                x > wmax || b.binary_search(&x).is_ok()
            };
            if near {
                acc.nontrivial(fnv(&[bd.text.as_bytes(), e.name.as_bytes(), &x.to_le_bytes()]), || json!({"description": bd.text, "enum": e.name, "x": x, "class": label}));
            }
            if let Some((outcome, detail)) = bad {
                let tags_: std::collections::BTreeSet<String> = [format!("enum.w={width}"), format!("enum.class={label}")].into_iter().collect();
                match ctx.kf.matches("C15", "try_from", &outcome, &tags_) {
                    Some(k) => acc.known(&k.id),
                    None => {
                        if first_bad.as_ref().map(|f| x < f.0).unwrap_or(true) {
                            first_bad = Some((x, outcome, detail));
                        }
                    }
                }
            }
        }
        // default
        match (e.default)() {
            Out::Ok(v) => {
                let cls = classify_enum(width, tags, v.back);
                let again = (e.try_from)(v.back);
                let ok = cls != EnumClass::Invalid && matches!(&again, Some(Out::Ok(Some(a))) if a.debug == v.debug);
                acc.eval("default()", if ok { "ok" } else { "bad" });
                if !ok && first_bad.is_none() {
                    first_bad = Some((v.back, "default-not-valid".into(), format!("default() = {} -> {}", v.debug, v.back)));
                }
            }
            Out::Panic(m) => first_bad = first_bad.or(Some((0, format!("panic:{}", panic_class(&m)), m))),
            _ => {}
        }
        if let Some((x, outcome, detail)) = first_bad {
            acc.p.violations.push(json!({
                "property": "C15", "seed": ctx.seed, "tier": if ctx.thorough {"thorough"} else {"quick"}, "profile": bd.profile,
                "pdl": bd.text, "model": bd.desc, "type": e.name, "op": "try_from", "input": {"int": x},
                "observed": outcome, "detail": detail, "signature": format!("C15|try_from|{outcome}"),
            }));
        }
    }
}

pub fn main(table: Table) -> ! {
    let args: Vec<String> = std::env::args().collect();
    if std::env::var("PDLV_LOUD").is_err() {
        // panics of the generated code are caught and reported as outcomes; keep stderr quiet.
        // Panics outside catch_unwind (engine bugs) still terminate the process with code 101.
        std::panic::set_hook(Box::new(|info| {
            if std::thread::panicking() {
                return;
            }
            let _ = info;
        }));
    }
    let prop = arg(&args, "--prop").expect("--prop");
    let tier = arg(&args, "--tier").unwrap_or("quick".into());
    let seed: u64 = arg(&args, "--seed").and_then(|s| s.parse().ok()).unwrap_or(1);
    let batch: Batch = serde_json::from_str(&std::fs::read_to_string(arg(&args, "--batch").expect("--batch")).expect("batch file")).expect("batch json");
    let kf = arg(&args, "--kf").map(|p| Kf::load(&p)).unwrap_or_default();
    let shard = arg(&args, "--shard").map(|s| {
        let mut it = s.split('/');
        (it.next().unwrap().parse().unwrap(), it.next().unwrap().parse().unwrap())
    });
    let journal = arg(&args, "--journal").and_then(|p| std::fs::OpenOptions::new().create(true).write(true).truncate(true).open(p).ok());
    let ctx = Ctx { prop: prop.clone(), thorough: tier == "thorough", seed, batch: &batch, table: &table, kf: &kf, shard: shard.unwrap_or((0, 1)), journal };
    if args.iter().any(|a| a == "--serve") {
        // line protocol server (C07): <n> \t D|E \t <desc> \t <Type> \t <hex|json>
        use std::io::{BufRead, Write};
        let stdin = std::io::stdin();
        let mut out = std::io::stdout();
        for line in stdin.lock().lines() {
            let Ok(line) = line else { break };
            let p: Vec<&str> = line.split('\t').collect();
            if p.len() < 2 {
                continue;
            }
            if p[1] == "Q" {
                break;
            }
            if p.len() < 5 {
                continue;
            }
            let di: usize = p[2].parse().unwrap_or(usize::MAX);
            let reply = match table.types.iter().find(|t| t.desc == di && t.name == p[3]) {
                None => "ERR\tNoType\t0\t-".to_string(),
                Some(t) => {
                    if p[1] == "D" {
                        let rep = (t.dec)(&unhex(p[4]));
                        match &rep.full {
                            Out::Ok(j) => {
                                let reser = match &rep.reenc {
                                    Some(Out::Ok(b)) => hex(b),
                                    Some(o) => format!("EXC:{}", o.kind()),
                                    None => "EXC:none".into(),
                                };
                                format!("OK\t{}\t{}\t{}\t-", p[3], j, reser)
                            }
                            Out::Err { kind, .. } => format!("ERR\t{kind}\t1\t-"),
                            Out::Panic(m) => format!("ERR\tpanic:{}\t0\t-", panic_class(m)),
                        }
                    } else {
                        let v: Value = serde_json::from_str(p[4]).unwrap_or(Value::Null);
                        let rep = (t.enc)(&v, &[]);
                        match (&rep.from_json, &rep.to_vec) {
                            (Err(e), _) => format!("ERR\tbuild:{}\t0\t-", e.replace('\t', " ")),
                            (_, Out::Ok(b)) => format!("OK\t{}\t{}", hex(b), rep.len.ok().copied().unwrap_or(0)),
                            (_, Out::Err { kind, .. }) => format!("ERR\t{kind}\t0\t-"),
                            (_, Out::Panic(m)) => format!("ERR\tpanic:{}\t0\t-", panic_class(m)),
                        }
                    }
                }
            };
            let _ = writeln!(out, "{}\t{}", p[0], reply);
            let _ = out.flush();
        }
        std::process::exit(0);
    }
    if let Some(rp) = arg(&args, "--replay") {
        // replay one recorded case: prints failures as JSON lines
        let v: Value = serde_json::from_str(&std::fs::read_to_string(&rp).expect("replay file")).expect("replay json");
        let ty = v["type"].as_str().unwrap_or("");
        let mut out = vec![];
        if prop == "C15" {
            let x = v["input"]["int"].as_u64().unwrap_or(0);
            if let Some(e) = table.enums.iter().find(|e| e.name == ty) {
                let (w, tags) = batch.descs[e.desc].desc.enum_tags(ty).unwrap();
                let cls = classify_enum(w, tags, x);
                let o = (e.try_from)(x);
                out.push(json!({"op": "try_from", "x": x, "reference": format!("{cls:?}"), "observed": format!("{:?}", o.map(|o| match o { Out::Ok(v) => format!("Ok({:?})", v.map(|v| v.debug)), Out::Panic(m) => format!("Panic({m})"), Out::Err{kind,..} => kind }))}));
            }
        } else if let Some(input) = input_from_json(&v["input"]) {
            let label = v["class"].as_str().unwrap_or("");
            let (fails, tags) = replay_case(&ctx, ty, &input, label, None);
            for f in fails {
                let mut tags = tags.clone();
                tags.extend(f.events.iter().map(|e| if e.starts_with("child:") { e.clone() } else { format!("event:{e}") }));
                let known = kf.matches(&prop, &f.op, &f.outcome, &tags).map(|k| k.id.clone());
                out.push(json!({"op": f.op, "outcome": f.outcome, "detail": f.detail, "known": known}));
            }
        }
        println!("{}", serde_json::to_string(&json!({"replay": rp, "failures": out})).unwrap());
        std::process::exit(0);
    }
    let mut acc = Acc::new(&prop);
    if prop == "C15" {
        run_enums(&ctx, &mut acc);
    } else {
        run_types(&ctx, &mut acc);
    }
    let out = arg(&args, "--out").expect("--out");
    std::fs::write(&out, serde_json::to_string(&acc.p).unwrap()).expect("write partial");
    std::process::exit(0);
}

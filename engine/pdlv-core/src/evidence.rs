//! Counters, label histograms, distinct-case hashing and sample capture.
use serde::{Deserialize, Serialize};
use serde_json::Value;
use std::collections::{BTreeMap, HashSet};

#[derive(Default, Clone, Debug, Serialize, Deserialize)]
pub struct Partial {
    pub property: String,
    pub evaluations: u64,
    pub distinct: u64,
    pub programs: u64,
    pub types: u64,
    pub labels: BTreeMap<String, u64>,
    pub outcomes: BTreeMap<String, u64>,
    pub strata: BTreeMap<String, u64>,
    pub skipped: BTreeMap<String, u64>,
    /// known finding id -> number of known-trigger cases that failed as listed
    pub known: BTreeMap<String, u64>,
    pub samples: Vec<Value>,
    pub violations: Vec<Value>,
    pub notes: Vec<String>,
    pub exhaustive_subspaces: u64,
}

impl Partial {
    pub fn merge(&mut self, o: Partial) {
        self.evaluations += o.evaluations;
        self.distinct += o.distinct;
        self.programs += o.programs;
        self.types += o.types;
        self.exhaustive_subspaces += o.exhaustive_subspaces;
        for (k, v) in o.labels {
            *self.labels.entry(k).or_default() += v;
        }
        for (k, v) in o.outcomes {
            *self.outcomes.entry(k).or_default() += v;
        }
        for (k, v) in o.strata {
            *self.strata.entry(k).or_default() += v;
        }
        for (k, v) in o.skipped {
            *self.skipped.entry(k).or_default() += v;
        }
        for (k, v) in o.known {
            *self.known.entry(k).or_default() += v;
        }
        for s in o.samples {
            if self.samples.len() < 8 {
                self.samples.push(s);
            }
        }
        self.violations.extend(o.violations);
        self.notes.extend(o.notes);
    }
}

pub fn fnv(parts: &[&[u8]]) -> u64 {
    let mut h: u64 = 0xcbf29ce484222325;
    for p in parts {
        for b in *p {
            h ^= *b as u64;
            h = h.wrapping_mul(0x100000001b3);
        }
        h ^= 0xff;
        h = h.wrapping_mul(0x100000001b3);
    }
    h
}

pub struct Acc {
    pub p: Partial,
    seen: HashSet<u64>,
    /// set while proptest re-runs the closure for shrinking: nothing is counted
    pub frozen: bool,
    sample_every: u64,
}

impl Acc {
    pub fn new(property: &str) -> Acc {
        Acc { p: Partial { property: property.into(), ..Default::default() }, seen: HashSet::new(), frozen: false, sample_every: 1 }
    }
    pub fn eval(&mut self, label: &str, outcome: &str) {
        if self.frozen {
            return;
        }
        self.p.evaluations += 1;
        *self.p.labels.entry(label.to_string()).or_default() += 1;
        *self.p.outcomes.entry(outcome.to_string()).or_default() += 1;
    }
    /// register a non-trivial case by hash; returns true if it is new
    pub fn nontrivial(&mut self, h: u64, sample: impl FnOnce() -> Value) -> bool {
        if self.frozen {
            return false;
        }
        if self.seen.insert(h) {
            self.p.distinct += 1;
            // reservoir-ish: keep 8 samples spread over the run
            if self.p.distinct % self.sample_every == 0 {
                if self.p.samples.len() < 8 {
                    self.p.samples.push(sample());
                } else {
                    let k = (self.p.distinct / self.sample_every) as usize % 8;
                    self.p.samples[k] = sample();
                    self.sample_every *= 2;
                }
            }
            true
        } else {
            false
        }
    }
    pub fn skip(&mut self, why: &str) {
        if self.frozen {
            return;
        }
        *self.p.skipped.entry(why.to_string()).or_default() += 1;
    }
    pub fn known(&mut self, id: &str) {
        if self.frozen {
            return;
        }
        *self.p.known.entry(id.to_string()).or_default() += 1;
    }
}

//! Description generator: well-formed by construction, driven by a choice stream.
//! A `Profile` is the set of constructs a backend supports (DESIGN.md 4.1); a
//! `stratum` index forces one cell of the backends' case analyses (4.2) into the
//! description so that a small batch reaches every code path.
use crate::choice::Src;
use crate::model::*;
use serde::{Deserialize, Serialize};

#[derive(Clone, Debug, Serialize, Deserialize, PartialEq)]
pub struct Profile {
    pub name: String,
    pub optional: bool,
    pub padding: bool,
    pub elemsize: bool,
    pub custom: bool,
    pub struct_inherit: bool,
    pub inherit: bool,
    pub body: bool,
    pub array_modifier: bool,
    pub payload_modifier: bool,
    pub groups: bool,
    pub enum_default_first: bool,
    pub enum_ranges: bool,
    pub enum_open: bool,
    pub max_len_width: u32,
    /// every variable-length part delimited or last (C02)
    pub round_trip: bool,
    pub max_static_count: u64,
    pub max_depth: usize,
    pub alias_children: bool,
    pub size_only_children: bool,
    pub struct_arrays: bool,
    pub enum_arrays: bool,
    pub odd_scalar_arrays: bool,
    pub fields_after_payload: bool,
    pub checksum: bool,
    pub unsized_custom: bool,
    /// allow unsized arrays / payloads that are not last (degenerate but legal)
    pub unsized_not_last: bool,
    /// struct declarations keep their (dependency) order in front of the file: forward references
    /// to a struct through a dynamic array are a known finding of the Python, C++ and Java backends
    pub structs_first: bool,
    /// the first tag of every enum is a plain value tag
    pub enum_first_value: bool,
    pub min_len_width: u32,
    /// enum fields inside bit-field runs: minimal / maximal width
    pub min_enum_width: u32,
    pub max_enum_width: u32,
    /// at most one enum-typed (or fixed enum) bit-field per run in structs
    pub one_enum_per_struct_run: bool,
    /// children never carry their own payload size field
    pub child_payload_unsized: bool,
    /// typedef struct / array items only directly after an octet-aligned start (no preceding bit-field run in the record)
    pub min_scalar_width: u32,
    pub nonempty_records: bool,
    pub struct_fields: bool,
    pub max_discr_width: u32,
    pub max_enum_elem_width: u32,
    pub enum_constraints: bool,
    pub struct_arrays_by_size: bool,
    pub fixed_fields: bool,
    /// scalar constraint values stay below 2^(w-1)
    pub signed_constraints: bool,
    /// every enum declares at least one plain value tag
    pub enum_needs_value: bool,
    pub multi_constraints: bool,
}

impl Profile {
    pub fn rust() -> Profile {
        Profile {
            name: "rust".into(),
            optional: true,
            padding: true,
            elemsize: true,
            custom: true,
            struct_inherit: true,
            inherit: true,
            body: true,
            array_modifier: false,
            payload_modifier: true,
            groups: true,
            enum_default_first: false,
            enum_ranges: true,
            enum_open: true,
            max_len_width: 63,
            round_trip: false,
            max_static_count: 8,
            max_depth: 3,
            alias_children: true,
            size_only_children: true,
            struct_arrays: true,
            enum_arrays: true,
            odd_scalar_arrays: true,
            fields_after_payload: true,
            checksum: false,
            unsized_custom: false,
            unsized_not_last: true,
            structs_first: false,
            enum_first_value: false,
            min_len_width: 1,
            min_enum_width: 1,
            max_enum_width: 64,
            one_enum_per_struct_run: false,
            child_payload_unsized: false,
            min_scalar_width: 1,
            nonempty_records: false,
            struct_fields: true,
            max_discr_width: 64,
            max_enum_elem_width: 64,
            enum_constraints: true,
            struct_arrays_by_size: true,
            fixed_fields: true,
            signed_constraints: false,
            enum_needs_value: false,
            multi_constraints: true,
        }
    }
    pub fn rust_rt() -> Profile {
        Profile { name: "rust-rt".into(), round_trip: true, unsized_not_last: false, ..Profile::rust() }
    }
    pub fn python() -> Profile {
        Profile { name: "python".into(), enum_needs_value: true, structs_first: true, elemsize: false, custom: false, array_modifier: true, enum_default_first: false, enum_first_value: false, struct_inherit: false, ..Profile::rust() }
    }
    pub fn cxx() -> Profile {
        Profile { name: "cxx".into(), nonempty_records: true, structs_first: true, enum_first_value: true, enum_default_first: false, odd_scalar_arrays: false, one_enum_per_struct_run: true, child_payload_unsized: true, round_trip: true, unsized_not_last: false, custom: false, struct_inherit: false, array_modifier: true, optional: false, ..Profile::rust() }
    }
    pub fn java() -> Profile {
        Profile {
            name: "java".into(),
            multi_constraints: false,
            fields_after_payload: false,
            signed_constraints: true,
            fixed_fields: false,
            nonempty_records: true,
            enum_arrays: false,
            enum_constraints: false,
            struct_arrays_by_size: false,
            struct_fields: false,
            max_discr_width: 31,
            max_enum_elem_width: 16,
            structs_first: true,
            min_len_width: 2,
            min_enum_width: 2,
            max_enum_width: 31,
            min_scalar_width: 2,
            odd_scalar_arrays: false,
            round_trip: true,
            optional: false,
            padding: false,
            elemsize: false,
            custom: false,
            struct_inherit: false,
            body: false,
            array_modifier: false,
            payload_modifier: false,
            groups: false,
            enum_default_first: false,
            alias_children: false,
            size_only_children: false,
            max_depth: 1,
            unsized_not_last: false,
            max_len_width: 16,
            ..Profile::rust()
        }
    }
    /// C19: the constructs on which the Java backend's generated classes are exercised at run time.  Wider than
    /// `java()` (the C10 compile domain): descriptions the generator or javac refuses are dropped and counted.
    /// Still excluded: optional fields, padding, element-size and custom fields (not supported by the backend),
    /// `_body_` parents (no fallback child by design), children without constraints (fromBytes of one alias sibling
    /// cannot be told from the other by an eagerly dispatching parent), unsized arrays/payloads that are not last
    /// (the backends resolve that degenerate shape differently) and struct inheritance (see DESIGN.md).
    pub fn java_rt() -> Profile {
        Profile {
            name: "java-rt".into(),
            fixed_fields: true,
            groups: true,
            struct_fields: true,
            enum_arrays: true,
            multi_constraints: true,
            fields_after_payload: true,
            enum_constraints: true,
            struct_arrays_by_size: true,
            payload_modifier: true,
            array_modifier: true,
            odd_scalar_arrays: true,
            size_only_children: true,
            max_depth: 3,
            max_len_width: 31,
            signed_constraints: false,
            max_discr_width: 64,
            max_enum_elem_width: 64,
            min_scalar_width: 1,
            min_len_width: 1,
            min_enum_width: 1,
            ..Profile::java()
        }
    }
    /// exploration only: override one flag by name (used by survey runs, never by registered commands)
    pub fn set(&mut self, key: &str, v: u64) {
        let b = v != 0;
        match key {
            "multi_constraints" => self.multi_constraints = b,
            "fields_after_payload" => self.fields_after_payload = b,
            "signed_constraints" => self.signed_constraints = b,
            "fixed_fields" => self.fixed_fields = b,
            "nonempty_records" => self.nonempty_records = b,
            "enum_arrays" => self.enum_arrays = b,
            "enum_constraints" => self.enum_constraints = b,
            "struct_arrays_by_size" => self.struct_arrays_by_size = b,
            "struct_fields" => self.struct_fields = b,
            "max_discr_width" => self.max_discr_width = v as u32,
            "max_enum_elem_width" => self.max_enum_elem_width = v as u32,
            "structs_first" => self.structs_first = b,
            "min_len_width" => self.min_len_width = v as u32,
            "min_enum_width" => self.min_enum_width = v as u32,
            "max_enum_width" => self.max_enum_width = v as u32,
            "min_scalar_width" => self.min_scalar_width = v as u32,
            "odd_scalar_arrays" => self.odd_scalar_arrays = b,
            "round_trip" => self.round_trip = b,
            "struct_inherit" => self.struct_inherit = b,
            "body" => self.body = b,
            "array_modifier" => self.array_modifier = b,
            "payload_modifier" => self.payload_modifier = b,
            "groups" => self.groups = b,
            "enum_default_first" => self.enum_default_first = b,
            "alias_children" => self.alias_children = b,
            "size_only_children" => self.size_only_children = b,
            "max_depth" => self.max_depth = v as usize,
            "unsized_not_last" => self.unsized_not_last = b,
            "max_len_width" => self.max_len_width = v as u32,
            "one_enum_per_struct_run" => self.one_enum_per_struct_run = b,
            "child_payload_unsized" => self.child_payload_unsized = b,
            "enum_first_value" => self.enum_first_value = b,
            "enum_needs_value" => self.enum_needs_value = b,
            _ => panic!("unknown profile flag {key}"),
        }
    }
    pub fn front_end() -> Profile {
        Profile { name: "front-end".into(), array_modifier: true, enum_default_first: true, max_len_width: 64, checksum: false, ..Profile::rust() }
    }
    pub fn by_name(n: &str) -> Profile {
        match n {
            "rust" => Profile::rust(),
            "rust-rt" => Profile::rust_rt(),
            "python" => Profile::python(),
            "cxx" => Profile::cxx(),
            "java" => Profile::java(),
            "java-rt" => Profile::java_rt(),
            "front-end" => Profile::front_end(),
            _ => panic!("unknown profile {n}"),
        }
    }
}

#[derive(Clone, Debug)]
struct StructInfo {
    id: String,
    /// min encoded octets
    min: u64,
    /// decode(encode(v) ++ s) == (v, s)
    self_delim: bool,
    static_size: Option<u64>,
    is_child: bool,
    /// derived struct of constant total size: usable as array element only
    derived_static: bool,
}

#[derive(Clone, Debug)]
enum Shape {
    Static(u64),
    Count(u32),
    Size(u32, Option<u64>),
    Unsized,
}

#[derive(Clone, Debug)]
enum Item {
    Arr { elem: Elem, shape: Shape, esz: Option<u32>, pad: Option<u64> },
    Struct(String),
    Custom(String),
    /// optional field: kind 0 scalar(w) / 1 enum(ty) / 2 struct(ty); flag index; cond value
    Opt { kind: u8, w: u32, ty: String, flag: usize, cv: u64 },
    Payload { body: bool, size: Option<u32>, modifier: Option<u64> },
}

#[derive(Clone, Debug)]
enum BitPart {
    Scalar(u32),
    Enum(u32),
    FixedScalar(u32),
    FixedEnum(u32),
    Reserved(u32),
    Size(String, u32),
    Count(String, u32),
    ElemSize(String, u32),
    Flag(String),
}

impl BitPart {
    /// keep the part only if its width is exactly `w`, else a reserved field of `w` bits
    fn w_or_reserved(self, w: u32) -> BitPart {
        if self.w() == w {
            self
        } else {
            BitPart::Reserved(w)
        }
    }
    fn w(&self) -> u32 {
        match self {
            BitPart::Scalar(w) | BitPart::Enum(w) | BitPart::FixedScalar(w) | BitPart::FixedEnum(w) | BitPart::Reserved(w) => *w,
            BitPart::Size(_, w) | BitPart::Count(_, w) | BitPart::ElemSize(_, w) => *w,
            BitPart::Flag(_) => 1,
        }
    }
}

pub struct Gen<'a, 'b> {
    pub s: &'a mut Src<'b>,
    pub p: Profile,
    decls: Vec<Decl>,
    nfield: usize,
    ndecl: usize,
    enums: Vec<(String, u32)>,
    structs: Vec<StructInfo>,
    customs: Vec<(String, u32)>,
    pub strata: Vec<String>,
    in_struct: bool,
    in_child: bool,
    enums_in_record: usize,
    prefer_derived: bool,
    /// element struct to use for the next struct array (strata that combine features)
    prefer_elem: Option<String>,
    /// an extra array item (element kind, shape) for the next record
    extra_array: Option<(usize, usize)>,
}

fn maxv(w: u32) -> u64 {
    if w >= 64 {
        u64::MAX
    } else {
        (1u64 << w) - 1
    }
}

const LEN_WIDTHS: &[u32] = &[8, 8, 8, 4, 16, 3, 12, 5, 24, 32, 7, 9, 1, 2, 40, 63, 64, 48];
const ELEM_WIDTHS: &[u32] = &[8, 8, 16, 24, 32, 40, 48, 56, 64];

impl<'a, 'b> Gen<'a, 'b> {
    pub fn new(s: &'a mut Src<'b>, p: Profile) -> Self {
        Gen { s, p, decls: vec![], nfield: 0, ndecl: 0, enums: vec![], structs: vec![], customs: vec![], strata: vec![], in_struct: false, in_child: false, enums_in_record: 0, prefer_derived: false, prefer_elem: None, extra_array: None }
    }

    fn fid(&mut self) -> String {
        self.nfield += 1;
        format!("f{}", self.nfield)
    }
    fn did(&mut self, prefix: &str) -> String {
        self.ndecl += 1;
        format!("{prefix}{}", self.ndecl)
    }

    fn len_width(&mut self) -> u32 {
        loop {
            let w = *self.s.pick(LEN_WIDTHS);
            if w <= self.p.max_len_width && w >= self.p.min_len_width {
                return w;
            }
        }
    }

    // ---------------------------------------------------------------- enums

    pub fn gen_enum(&mut self, w: u32, force: Option<usize>) -> String {
        let id = self.did("E");
        let max = maxv(w);
        let mut tags: Vec<Tag> = vec![];
        let mut ntag = 0;
        let mut tid = |n: &mut usize| {
            *n += 1;
            format!("T{}", *n)
        };
        // shape: 0 closed values, 1 open values, 2 closed w/ ranges, 3 open w/ ranges, 4 complete (small w)
        let shape = force.unwrap_or_else(|| self.s.weighted(&[4, 3, 2, 2, 1]));
        let with_ranges = (shape == 2 || shape == 3) && self.p.enum_ranges && max >= 3;
        let open = (shape == 1 || shape == 3) && self.p.enum_open;
        if shape == 4 && w <= 3 {
            for v in 0..=max {
                tags.push(Tag::Value { id: tid(&mut ntag), v });
            }
        } else {
            let n = 1 + self.s.below(5);
            // cursor walk
            let mut cur: u64 = match self.s.below(3) {
                0 => 0,
                1 => self.s.range(0, max.min(4)),
                _ => self.s.range(0, max),
            };
            for i in 0..n {
                if cur > max {
                    break;
                }
                let make_range = with_ranges && cur < max && self.s.below(3) == 0;
                if make_range {
                    let room = max - cur;
                    let len = match self.s.below(3) {
                        0 => 1,
                        1 => self.s.range(1, room.min(8)),
                        _ => self.s.range(1, room),
                    };
                    let (lo, hi) = (cur, cur + len);
                    let mut sub = vec![];
                    let nsub = self.s.below(3);
                    let mut c = lo;
                    for _ in 0..nsub {
                        if c > hi {
                            break;
                        }
                        let v = self.s.range(c, (c + 3).min(hi));
                        sub.push((tid(&mut ntag), v));
                        if v == u64::MAX {
                            break;
                        }
                        c = v + 1;
                    }
                    tags.push(Tag::Range { id: tid(&mut ntag), lo, hi, tags: sub });
                    if hi == u64::MAX {
                        break;
                    }
                    cur = hi + 1;
                } else {
                    tags.push(Tag::Value { id: tid(&mut ntag), v: cur });
                    if cur == u64::MAX {
                        break;
                    }
                    cur += 1;
                }
                // gap
                if i + 1 < n && cur <= max {
                    cur = match self.s.below(4) {
                        0 => cur,
                        1 => (cur.saturating_add(self.s.range(0, 3))).min(max),
                        2 => max, // next tag at the very top
                        _ => self.s.range(cur, max),
                    };
                }
            }
        }
        if self.p.enum_needs_value && !tags.iter().any(|t| matches!(t, Tag::Value { .. })) {
            tags = vec![Tag::Value { id: tid(&mut ntag), v: 0 }];
        }
        if self.p.enum_first_value && !matches!(tags.first(), Some(Tag::Value { .. })) {
            if let Some(k) = tags.iter().position(|t| matches!(t, Tag::Value { .. })) {
                let t = tags.remove(k);
                tags.insert(0, t);
            } else {
                // only ranges: make the enum a plain one
                tags = vec![Tag::Value { id: tid(&mut ntag), v: 0 }];
            }
        }
        if open {
            let t = Tag::Other { id: tid(&mut ntag) };
            if self.p.enum_default_first && self.s.below(4) == 0 {
                tags.insert(0, t);
            } else {
                tags.push(t);
            }
        }
        self.decls.push(Decl::Enum { id: id.clone(), width: w, tags });
        self.enums.push((id.clone(), w));
        id
    }

    fn enum_of_width(&mut self, w: u32) -> String {
        let have: Vec<String> = self.enums.iter().filter(|e| e.1 == w).map(|e| e.0.clone()).collect();
        if !have.is_empty() && self.s.below(3) > 0 {
            return self.s.pick(&have).clone();
        }
        self.gen_enum(w, None)
    }

    fn named_tags(&self, ty: &str) -> Vec<(String, u64)> {
        let mut out = vec![];
        for d in &self.decls {
            if let Decl::Enum { id, tags, .. } = d {
                if id == ty {
                    for t in tags {
                        match t {
                            Tag::Value { id, v } => out.push((id.clone(), *v)),
                            // tags nested in a range cannot be referenced by fixed fields or
                            // constraints (the analyzer resolves top-level tags only)
                            _ => {}
                        }
                    }
                }
            }
        }
        out
    }

    // ---------------------------------------------------------------- bit-field runs

    /// Emit bit-field runs containing `mand` plus fillers; every run totals 8k <= 64 bits.
    fn bit_runs(&mut self, mut mand: Vec<BitPart>, allow_fill: bool, out: &mut Vec<Field>, discr: &mut Vec<(String, u32, Option<String>)>) {
        loop {
            // take as many mandatory parts as fit in 64 bits
            let mut run: Vec<BitPart> = vec![];
            let mut sum = 0u32;
            while let Some(p) = mand.first() {
                if sum + p.w() > 64 {
                    break;
                }
                sum += p.w();
                run.push(mand.remove(0));
            }
            if run.is_empty() && !allow_fill {
                return;
            }
            let lo = (sum + 7) / 8 * 8;
            let mut total = if lo >= 64 {
                64
            } else {
                match self.s.below(4) {
                    0 => lo.max(8),
                    1 => (lo + 8).min(64),
                    2 => *self.s.pick(&[8u32, 16, 24, 32, 40, 64]).max(&lo.max(8)),
                    _ => (lo.max(8) + 8 * self.s.below(3) as u32).min(64),
                }
            };
            if total < lo {
                total = lo;
            }
            if total == 0 {
                return;
            }
            let mut fill = total - sum;
            while fill > 0 {
                let w = match self.s.below(6) {
                    0 => fill,
                    1 => 1,
                    2 => fill.min(*self.s.pick(&[7u32, 8, 9, 15, 16, 17, 31, 32, 33, 63, 3, 4])),
                    _ => 1 + self.s.below(fill as usize) as u32,
                };
                let enum_ok = w >= self.p.min_enum_width && w <= self.p.max_enum_width && !(self.p.one_enum_per_struct_run && self.enums_in_record >= 1);
                let part = match self.s.weighted(&[6, 3, 1, 1, 2]) {
                    0 if w >= self.p.min_scalar_width => BitPart::Scalar(w),
                    0 => BitPart::Reserved(w),
                    1 if enum_ok => BitPart::Enum(w),
                    1 => BitPart::Scalar(w.max(self.p.min_scalar_width).min(w)),
                    2 => BitPart::FixedScalar(w),
                    3 if enum_ok => BitPart::FixedEnum(w),
                    3 => BitPart::FixedScalar(w),
                    _ => BitPart::Reserved(w),
                };
                let part = match part {
                    BitPart::Scalar(w) if w < self.p.min_scalar_width => BitPart::Reserved(w),
                    BitPart::FixedScalar(w) if w < self.p.min_scalar_width || w > self.p.max_enum_width => BitPart::Reserved(w),
                    p => p,
                };
                let part = match part {
                    BitPart::FixedScalar(w) | BitPart::FixedEnum(w) if !self.p.fixed_fields => BitPart::Scalar(w.max(self.p.min_scalar_width)).w_or_reserved(w),
                    p => p,
                };
                if matches!(part, BitPart::Enum(_) | BitPart::FixedEnum(_)) {
                    self.enums_in_record += 1;
                }
                run.push(part);
                fill -= w;
            }
            // shuffle (Fisher-Yates driven by the stream)
            for i in (1..run.len()).rev() {
                let j = self.s.below(i + 1);
                run.swap(i, j);
            }
            for part in run {
                let d = match part {
                    BitPart::Scalar(w) => {
                        let id = self.fid();
                        discr.push((id.clone(), w, None));
                        FieldDesc::Scalar { id, w }
                    }
                    BitPart::Enum(w) => {
                        let ty = self.enum_of_width(w);
                        let id = self.fid();
                        discr.push((id.clone(), w, Some(ty.clone())));
                        FieldDesc::Typedef { id, ty }
                    }
                    BitPart::FixedScalar(w) => FieldDesc::FixedScalar { w, v: self.s.bits(w) },
                    BitPart::FixedEnum(w) => {
                        let ty = self.enum_of_width(w);
                        let tags = self.named_tags(&ty);
                        if tags.is_empty() {
                            FieldDesc::FixedScalar { w, v: self.s.bits(w) }
                        } else {
                            let t = self.s.pick(&tags).0.clone();
                            FieldDesc::FixedEnum { ty, tag: t }
                        }
                    }
                    BitPart::Reserved(w) => FieldDesc::Reserved { w },
                    BitPart::Size(t, w) => FieldDesc::Size { target: t, w },
                    BitPart::Count(t, w) => FieldDesc::Count { target: t, w },
                    BitPart::ElemSize(t, w) => FieldDesc::ElemSize { target: t, w },
                    BitPart::Flag(id) => FieldDesc::Scalar { id, w: 1 },
                };
                out.push(Field::new(d));
            }
            if mand.is_empty() {
                return;
            }
        }
    }

    // ---------------------------------------------------------------- items

    fn pick_struct(&mut self, need_min1: bool, need_self_delim: bool) -> Option<StructInfo> {
        self.pick_struct_for(need_min1, need_self_delim, false)
    }

    fn pick_struct_for(&mut self, need_min1: bool, need_self_delim: bool, for_array: bool) -> Option<StructInfo> {
        if for_array || self.prefer_elem.is_some() {
            if let Some(id) = self.prefer_elem.take() {
                if let Some(si) = self.structs.iter().find(|s| s.id == id) {
                    return Some(si.clone());
                }
            }
        }
        if for_array && self.prefer_derived {
            let d: Vec<StructInfo> = self.structs.iter().filter(|s| s.derived_static).cloned().collect();
            if !d.is_empty() {
                self.prefer_derived = false;
                return Some(self.s.pick(&d).clone());
            }
        }
        let c: Vec<StructInfo> = self.structs.iter().filter(|s| (!need_min1 || s.min >= 1) && (!need_self_delim || s.self_delim) && (!s.is_child || (for_array && s.derived_static))).cloned().collect();
        if c.is_empty() {
            None
        } else {
            Some(self.s.pick(&c).clone())
        }
    }

    fn gen_array(&mut self, last: bool, force: Option<(usize, usize)>) -> Option<Item> {
        // element kinds: 0 u8, 1 scalar 8k, 2 enum 8k, 3 struct, 4 custom
        let (ek, sk) = match force {
            Some(x) => x,
            None => (self.s.weighted(&[3, 3, 2, 4, 1]), self.s.weighted(&[2, 3, 3, 2])),
        };
        let rt = self.p.round_trip;
        let mut esz = None;
        let mut force_pad = false;
        let (elem, elem_static, elem_min, elem_sd): (Elem, Option<u64>, u64, bool) = match ek {
            0 => (Elem::Bits(8), Some(1), 1, true),
            1 => {
                let w = if self.p.odd_scalar_arrays { *self.s.pick(ELEM_WIDTHS) } else { *self.s.pick(&[8u32, 16, 32, 64]) };
                (Elem::Bits(w), Some(w as u64 / 8), w as u64 / 8, true)
            }
            2 if self.p.enum_arrays => {
                let ws: Vec<u32> = [8u32, 16, 24, 32, 64, 8, 16].into_iter().filter(|w| *w <= self.p.max_enum_width && *w <= self.p.max_enum_elem_width).collect();
                let w = *self.s.pick(&ws);
                let ty = self.enum_of_width(w);
                (Elem::Ty(ty), Some(w as u64 / 8), w as u64 / 8, true)
            }
            3 if self.p.struct_arrays => {
                let use_esz = self.p.elemsize && self.s.below(4) == 0;
                match self.pick_struct_for(!use_esz, rt && !use_esz, !rt) {
                    Some(si) => {
                        if si.derived_static {
                            self.strata.push("array.elem=derived-struct".into());
                            force_pad = self.p.padding && self.s.below(2) == 0;
                        }
                        // the language reference does not document _elementsize_; the canonical tests
                        // use it for elements of non-constant size only, so that is the domain here
                        if use_esz && si.static_size.is_none() {
                            esz = Some(self.len_width().min(16).max(2));
                        }
                        (Elem::Ty(si.id.clone()), si.static_size, si.min, si.self_delim)
                    }
                    None => (Elem::Bits(16), Some(2), 2, true),
                }
            }
            4 if self.p.custom && !self.customs.is_empty() => {
                let c = self.s.pick(&self.customs.clone()).clone();
                (Elem::Ty(c.0), Some(c.1 as u64 / 8), c.1 as u64 / 8, true)
            }
            _ => (Elem::Bits(8), Some(1), 1, true),
        };
        let _ = (elem_min, elem_sd);
        let mut shape = match sk {
            0 => Shape::Static(match self.s.below(4) {
                0 => 1,
                1 => 2,
                _ => 1 + self.s.below(self.p.max_static_count as usize) as u64,
            }),
            1 => Shape::Count(self.len_width()),
            2 => {
                let m = if self.p.array_modifier && self.s.below(4) == 0 { Some(1 + self.s.below(4) as u64) } else { None };
                Shape::Size(self.len_width(), m)
            }
            _ => Shape::Unsized,
        };
        if !self.p.struct_arrays_by_size && ek == 3 && matches!(shape, Shape::Size(..)) {
            shape = Shape::Count(self.len_width());
        }
        if matches!(shape, Shape::Unsized) && !last && !(self.p.unsized_not_last && self.s.below(8) == 0) {
            shape = Shape::Count(self.len_width());
        }
        // zero-octet elements under wide counts make the *value* legitimately huge (DESIGN C01-L)
        if elem_min == 0 && esz.is_none() {
            shape = match shape {
                Shape::Count(w) => Shape::Count(w.min(6)),
                Shape::Static(n) => Shape::Static(n.min(8)),
                Shape::Unsized | Shape::Size(..) => Shape::Count(4),
            };
        }
        let mut pad = None;
        if self.p.padding && (self.s.below(5) == 0 || force_pad) {
            let base = match (&shape, elem_static) {
                (Shape::Static(n), Some(e)) => n * e,
                _ => 4 * elem_static.unwrap_or(4).max(1),
            };
            pad = Some(match self.s.below(3) {
                0 => base.max(1),
                1 => base.max(1) + 1 + self.s.below(8) as u64,
                _ => (base.max(1) * 2).min(64),
            });
            if rt && matches!(shape, Shape::Unsized) {
                shape = Shape::Count(self.len_width());
            }
        }
        let _ = elem_static;
        Some(Item::Arr { elem, shape, esz, pad })
    }

    /// Generate the field list of one record.
    /// `payload`: 0 none, 1 may, 2 must.  Returns (fields, discriminant candidates).
    fn gen_fields(&mut self, payload: u8, is_struct: bool, stratum: Option<usize>) -> (Vec<Field>, Vec<(String, u32, Option<String>)>) {
        self.in_struct = is_struct;
        self.enums_in_record = 0;
        let mut out: Vec<Field> = vec![];
        let mut discr = vec![];
        let nitems = match self.s.below(8) {
            0 | 1 => 0,
            2 | 3 | 4 => 1,
            5 | 6 => 2,
            _ => 3,
        };
        let mut items: Vec<Item> = vec![];
        let mut nflags = 0usize;
        let mut forced = stratum;
        for i in 0..nitems.max(if forced.is_some() { 1 } else { 0 }) {
            let last = i + 1 == nitems.max(1) && payload == 0;
            let kind = match forced {
                Some(st) if st < 16 => 0,
                Some(st) if st < 22 => 3,
                Some(_) => self.s.weighted(&[5, 2, 1, 2]),
                None => self.s.weighted(&[5, 2, 1, 2]),
            };
            match kind {
                0 => {
                    let f = forced.take().filter(|st| *st < 16).map(|st| (st / 4 + if st / 4 >= 3 { 0 } else { 0 }, st % 4));
                    // st/4 in 0..4 -> element kinds 0,1,2,3 ; custom reached randomly
                    if let Some(it) = self.gen_array(last, f) {
                        if let Some((ek, sk)) = f {
                            self.strata.push(format!("array.elem={}.shape={}", ["u8", "scalar", "enum", "struct"][ek.min(3)], ["static", "count", "size", "unsized"][sk]));
                        }
                        items.push(it);
                    }
                }
                1 => {
                    if self.p.struct_fields {
                        if let Some(si) = self.pick_struct(false, self.p.round_trip && !last) {
                            items.push(Item::Struct(si.id));
                        }
                    }
                }
                2 => {
                    if self.p.custom && !self.customs.is_empty() {
                        let c = self.s.pick(&self.customs.clone()).0.clone();
                        items.push(Item::Custom(c));
                    }
                }
                _ => {
                    if self.p.optional {
                        let st = forced.take();
                        let k = match st {
                            Some(x) if (16..22).contains(&x) => ((x - 16) % 3) as u8,
                            _ => self.s.below(3) as u8,
                        };
                        let flag = if nflags > 0 && self.s.below(3) == 0 { self.s.below(nflags) } else { nflags };
                        if flag == nflags {
                            nflags += 1;
                        }
                        let cv = match st {
                            Some(x) if (16..22).contains(&x) => ((x - 16) / 3) as u64,
                            _ => self.s.below(2) as u64,
                        };
                        match k {
                            0 => {
                                let w = *self.s.pick(ELEM_WIDTHS);
                                items.push(Item::Opt { kind: 0, w, ty: String::new(), flag, cv });
                                self.strata.push(format!("opt.scalar.cv={cv}"));
                            }
                            1 => {
                                let w = *self.s.pick(&[8u32, 16, 24, 32, 64]);
                                let ty = self.enum_of_width(w);
                                items.push(Item::Opt { kind: 1, w, ty, flag, cv });
                                self.strata.push(format!("opt.enum.cv={cv}"));
                            }
                            _ => {
                                if let Some(si) = self.pick_struct(false, self.p.round_trip) {
                                    items.push(Item::Opt { kind: 2, w: 0, ty: si.id, flag, cv });
                                    self.strata.push(format!("opt.struct.cv={cv}"));
                                } else {
                                    items.push(Item::Opt { kind: 0, w: 8, ty: String::new(), flag, cv });
                                }
                            }
                        }
                    }
                }
            }
        }
        if let Some(f) = self.extra_array.take() {
            if let Some(it) = self.gen_array(false, Some(f)) {
                items.push(it);
            }
        }
        // payload position
        let want_payload = payload == 2 || (payload == 1 && self.s.below(3) == 0);
        if want_payload {
            let body = self.p.body && self.s.below(3) == 0;
            let sized = self.s.below(2) == 0 && !(self.p.child_payload_unsized && self.in_child);
            let size = if sized { Some(self.len_width()) } else { None };
            let modifier = if sized && !body && self.p.payload_modifier && self.s.below(4) == 0 { Some(1 + self.s.below(5) as u64) } else { None };
            let it = Item::Payload { body, size, modifier };
            // unsized payload must come after every variable item (only static fields may follow)
            if size.is_none() || !self.p.fields_after_payload || self.s.below(2) == 0 {
                items.push(it);
            } else {
                let pos = self.s.below(items.len() + 1);
                items.insert(pos, it);
            }
        }
        // in the round-trip profile an unsized array must be the very last item
        if self.p.round_trip {
            let n = items.len();
            for (i, it) in items.iter_mut().enumerate() {
                if let Item::Arr { shape, .. } = it {
                    if matches!(shape, Shape::Unsized) && i + 1 != n {
                        *shape = Shape::Count(8);
                    }
                }
            }
        }
        // flags
        let flag_ids: Vec<String> = (0..nflags).map(|_| self.fid()).collect();
        let mut flags_emitted = vec![false; nflags];
        let header = self.s.below(3) > 0 || items.is_empty();
        let mut pending_header: Vec<BitPart> = vec![];
        let n_items = items.len();
        let mut unsized_payload_seen = false;
        for (idx, it) in items.into_iter().enumerate() {
            let mut mand: Vec<BitPart> = std::mem::take(&mut pending_header);
            let mut after: Vec<Field> = vec![];
            match it {
                Item::Arr { elem, shape, esz, pad } => {
                    let id = self.fid();
                    let (count, modifier) = match &shape {
                        Shape::Static(n) => (Some(*n), None),
                        Shape::Size(_, m) => (None, *m),
                        _ => (None, None),
                    };
                    match &shape {
                        Shape::Count(w) => mand.push(BitPart::Count(id.clone(), *w)),
                        Shape::Size(w, _) => mand.push(BitPart::Size(id.clone(), *w)),
                        _ => {}
                    }
                    if let Some(w) = esz {
                        mand.push(BitPart::ElemSize(id.clone(), w));
                    }
                    after.push(Field::new(FieldDesc::Array { id, elem, count, modifier }));
                    if let Some(n) = pad {
                        after.push(Field::new(FieldDesc::Padding { n }));
                    }
                }
                Item::Struct(ty) => {
                    let id = self.fid();
                    after.push(Field::new(FieldDesc::Typedef { id, ty }));
                }
                Item::Custom(ty) => {
                    let id = self.fid();
                    after.push(Field::new(FieldDesc::Typedef { id, ty }));
                }
                Item::Opt { kind, w, ty, flag, cv } => {
                    if !flags_emitted[flag] {
                        flags_emitted[flag] = true;
                        mand.push(BitPart::Flag(flag_ids[flag].clone()));
                    }
                    let id = self.fid();
                    let d = if kind == 0 { FieldDesc::Scalar { id, w } } else { FieldDesc::Typedef { id, ty } };
                    after.push(Field { d, cond: Some((flag_ids[flag].clone(), cv)) });
                }
                Item::Payload { body, size, modifier } => {
                    if let Some(w) = size {
                        mand.push(BitPart::Size(if body { "_body_".into() } else { "_payload_".into() }, w));
                    } else {
                        unsized_payload_seen = true;
                    }
                    after.push(Field::new(if body { FieldDesc::Body } else { FieldDesc::Payload { modifier } }));
                }
            }
            let fill = (idx == 0 && header) || self.s.below(3) == 0;
            // after an unsized payload only static fields may follow: no further items are
            // emitted (they were ordered first), only a static tail below
            self.bit_runs(mand, fill, &mut out, &mut discr);
            out.extend(after);
            let _ = n_items;
        }
        if out.is_empty() || self.s.below(3) == 0 {
            let only_reserved = out.iter().all(|f| matches!(f.d, FieldDesc::Reserved { .. }));
            if self.p.nonempty_records && only_reserved && !self.p.fixed_fields {
                let id = self.fid();
                out.insert(0, Field::new(FieldDesc::Scalar { id, w: 8 }));
            }
            let must = out.is_empty() && (is_struct || self.p.nonempty_records || self.s.below(4) > 0);
            if must || (self.p.fields_after_payload || !want_payload) && self.s.below(2) == 0 {
                if !(unsized_payload_seen && !self.p.fields_after_payload) {
                    self.bit_runs(vec![], true, &mut out, &mut discr);
                }
            }
        }
        (out, discr)
    }

    // ---------------------------------------------------------------- analysis of generated records

    fn analyse_struct(&self, id: &str, fields: &[Field], is_child: bool) -> StructInfo {
        // conservative structural classification used only to steer the generator
        let mut min = 0u64;
        let mut sd = true;
        let mut stat = Some(0u64);
        let mut bits = 0u64;
        let sized: Vec<&str> = fields
            .iter()
            .filter_map(|f| match &f.d {
                FieldDesc::Size { target, .. } | FieldDesc::Count { target, .. } => Some(target.as_str()),
                _ => None,
            })
            .collect();
        let esized: Vec<&str> = fields.iter().filter_map(|f| if let FieldDesc::ElemSize { target, .. } = &f.d { Some(target.as_str()) } else { None }).collect();
        let n = fields.len();
        for (i, f) in fields.iter().enumerate() {
            if f.cond.is_some() {
                stat = None;
                if let FieldDesc::Typedef { ty, .. } = &f.d {
                    if let Some(si) = self.structs.iter().find(|s| &s.id == ty) {
                        sd &= si.self_delim;
                    }
                }
                continue;
            }
            match &f.d {
                FieldDesc::Scalar { w, .. } | FieldDesc::FixedScalar { w, .. } | FieldDesc::Reserved { w } | FieldDesc::Size { w, .. } | FieldDesc::Count { w, .. } | FieldDesc::ElemSize { w, .. } => bits += *w as u64,
                FieldDesc::FixedEnum { ty, .. } => bits += self.enums.iter().find(|e| &e.0 == ty).map(|e| e.1 as u64).unwrap_or(0),
                FieldDesc::Typedef { ty, .. } => {
                    if let Some(e) = self.enums.iter().find(|e| &e.0 == ty) {
                        bits += e.1 as u64;
                    } else if let Some(c) = self.customs.iter().find(|c| &c.0 == ty) {
                        bits += c.1 as u64;
                    } else if let Some(si) = self.structs.iter().find(|s| &s.id == ty) {
                        min += si.min;
                        sd &= si.self_delim;
                        match (stat, si.static_size) {
                            (Some(a), Some(b)) => stat = Some(a + b),
                            _ => stat = None,
                        }
                    }
                }
                FieldDesc::Array { id, elem, count, .. } => {
                    let padded = matches!(fields.get(i + 1).map(|f| &f.d), Some(FieldDesc::Padding { .. }));
                    let (es, emin, esd) = match elem {
                        Elem::Bits(w) => (Some(*w as u64 / 8), *w as u64 / 8, true),
                        Elem::Ty(t) => {
                            if let Some(e) = self.enums.iter().find(|e| &e.0 == t) {
                                (Some(e.1 as u64 / 8), e.1 as u64 / 8, true)
                            } else if let Some(c) = self.customs.iter().find(|c| &c.0 == t) {
                                (Some(c.1 as u64 / 8), c.1 as u64 / 8, true)
                            } else if let Some(si) = self.structs.iter().find(|s| &s.id == t) {
                                (si.static_size, si.min, si.self_delim)
                            } else {
                                (None, 0, false)
                            }
                        }
                    };
                    let has_esz = esized.contains(&id.as_str());
                    let delimited = count.is_some() || sized.contains(&id.as_str());
                    if padded {
                        if let Some(FieldDesc::Padding { n }) = fields.get(i + 1).map(|f| &f.d) {
                            min += n;
                            match stat {
                                Some(a) => stat = Some(a + n),
                                None => {}
                            }
                        }
                        sd &= delimited && (esd || has_esz);
                    } else {
                        match (count, es, has_esz) {
                            (Some(c), Some(e), false) => {
                                min += c * e;
                                stat = stat.map(|a| a + c * e);
                            }
                            (Some(c), _, _) => {
                                min += c * emin;
                                stat = None;
                            }
                            _ => stat = None,
                        }
                        sd &= delimited && (esd || has_esz);
                    }
                    let _ = (i, n);
                }
                FieldDesc::Payload { .. } | FieldDesc::Body => {
                    stat = None;
                    sd &= sized.contains(&"_payload_") || sized.contains(&"_body_");
                }
                FieldDesc::Padding { .. } | FieldDesc::Group { .. } | FieldDesc::Checksum { .. } => {}
            }
        }
        min += bits / 8;
        let static_size = stat.map(|a| a + bits / 8);
        StructInfo { id: id.to_string(), min, self_delim: sd, static_size, is_child, derived_static: false }
    }

    // ---------------------------------------------------------------- declarations

    fn gen_struct(&mut self, stratum: Option<usize>) {
        let id = self.did("S");
        let (fields, _) = self.gen_fields(0, true, stratum);
        let si = self.analyse_struct(&id, &fields, false);
        self.decls.push(Decl::Record { id, packet: false, parent: None, cons: vec![], fields });
        self.structs.push(si);
    }

    fn gen_custom(&mut self) {
        let id = self.did("C");
        let w = *self.s.pick(&[8u32, 16, 24, 32, 64, 40]);
        self.decls.push(Decl::Custom { id: id.clone(), width: Some(w) });
        self.customs.push((id, w));
    }

    /// children of `parent`; `avail` = discriminant candidates visible from the parent chain
    /// (field id, width, enum type) not yet constrained along the chain.
    fn gen_children(&mut self, parent: &str, packet: bool, avail: Vec<(String, u32, Option<String>)>, depth: usize) {
        if depth >= self.p.max_depth {
            return;
        }
        // candidates able to discriminate >= 2 values
        let mut cands: Vec<(String, u32, Option<String>, Vec<(String, u64)>)> = vec![];
        for (id, w, ty) in &avail {
            if *w > self.p.max_discr_width {
                continue;
            }
            match ty {
                None => cands.push((id.clone(), *w, None, vec![])),
                Some(t) => {
                    let tags = self.named_tags(t);
                    if !tags.is_empty() && self.p.enum_constraints {
                        cands.push((id.clone(), *w, Some(t.clone()), tags));
                    }
                }
            }
        }
        let size_only = self.p.size_only_children && self.s.below(10) == 0;
        if size_only {
            // children distinguished only by constant size
            self.strata.push("inherit.size-only".into());
            let n = 1 + self.s.below(2);
            let mut used = vec![];
            for _ in 0..=n {
                let k = 1 + self.s.below(4) as u32;
                if used.contains(&k) {
                    continue;
                }
                used.push(k);
                let id = self.did(if packet { "P" } else { "S" });
                let fid = self.fid();
                let fields = vec![Field::new(FieldDesc::Scalar { id: fid, w: 8 * k })];
                self.decls.push(Decl::Record { id: id.clone(), packet, parent: Some(parent.to_string()), cons: vec![], fields });
                if !packet {
                    self.structs.push(StructInfo { id, min: k as u64, self_delim: false, static_size: None, is_child: true, derived_static: false });
                }
            }
            return;
        }
        if cands.is_empty() {
            if self.p.alias_children && self.s.below(2) == 0 {
                // single child without discriminant
                self.strata.push("inherit.single-alias".into());
                let id = self.did(if packet { "P" } else { "S" });
                let (fields, _) = self.gen_fields(0, !packet, None);
                self.decls.push(Decl::Record { id: id.clone(), packet, parent: Some(parent.to_string()), cons: vec![], fields });
                if !packet {
                    self.structs.push(StructInfo { id, min: 0, self_delim: false, static_size: None, is_child: true, derived_static: false });
                }
            }
            return;
        }
        let ci = self.s.below(cands.len());
        let (did, dw, dty, dtags) = cands[ci].clone();
        let nmax = match &dty {
            None => (maxv(dw).min(3) + 1) as usize,
            Some(_) => dtags.len().min(4),
        };
        let n = 1 + self.s.below(nmax.min(3));
        let mut used_vals: Vec<u64> = vec![];
        let mut n = n;
        let mut force_payload_sibling = false;
        let mut ch = 0usize;
        while ch < n {
            ch += 1;
            // discriminating constraint
            let cons_main = match &dty {
                None => {
                    let mut v = self.s.bits(dw);
                    if self.p.signed_constraints && dw > 1 {
                        v &= maxv(dw - 1);
                    }
                    let mut guard = 0;
                    while used_vals.contains(&v) {
                        v = if v == maxv(if self.p.signed_constraints && dw > 1 { dw - 1 } else { dw }) { 0 } else { v + 1 };
                        guard += 1;
                        if guard > 8 {
                            break;
                        }
                    }
                    if used_vals.contains(&v) {
                        continue;
                    }
                    used_vals.push(v);
                    Cons { id: did.clone(), v: Cv::Int(v) }
                }
                Some(_) => {
                    let free: Vec<&(String, u64)> = dtags.iter().filter(|t| !used_vals.contains(&t.1)).collect();
                    if free.is_empty() {
                        continue;
                    }
                    let t = (*self.s.pick(&free)).clone();
                    used_vals.push(t.1);
                    Cons { id: did.clone(), v: Cv::Tag(t.0) }
                }
            };
            // two siblings with the same constraint, told apart by their constant size only
            if self.p.size_only_children && self.s.below(7) == 0 {
                let k1 = 1 + self.s.below(3) as u32;
                let k2 = k1 + 1 + self.s.below(2) as u32;
                for k in [k1, k2] {
                    let id = self.did(if packet { "P" } else { "S" });
                    let fid = self.fid();
                    self.decls.push(Decl::Record { id: id.clone(), packet, parent: Some(parent.to_string()), cons: vec![cons_main.clone()], fields: vec![Field::new(FieldDesc::Scalar { id: fid, w: 8 * k })] });
                    if !packet {
                        self.structs.push(StructInfo { id, min: k as u64, self_delim: false, static_size: None, is_child: true, derived_static: false });
                    }
                }
                self.strata.push("inherit.same-constraint-size-twins".into());
                // a sibling with another constraint and a payload of its own makes the size column of the
                // generated match interesting: make sure one follows
                force_payload_sibling = true;
                if ch >= n && n < nmax {
                    n += 1;
                }
                continue;
            }
            let mut cons = vec![cons_main];
            let mut rest: Vec<(String, u32, Option<String>)> = avail.iter().filter(|a| a.0 != did && a.1 <= self.p.max_discr_width).cloned().collect();
            // alias level: no constraint here, the constraint moves to a grandchild
            let alias = self.p.alias_children && depth + 1 < self.p.max_depth && n == 1 && self.s.below(6) == 0;
            // extra constraint on another field
            if !alias && !rest.is_empty() && self.p.multi_constraints && self.s.below(3) == 0 {
                let k = self.s.below(rest.len());
                let (eid, ew, ety) = rest.remove(k);
                match ety {
                    None => {
                        let mut v = self.s.bits(ew);
                        if self.p.signed_constraints && ew > 1 {
                            v &= maxv(ew - 1);
                        }
                        cons.push(Cons { id: eid, v: Cv::Int(v) })
                    }
                    Some(t) => {
                        let tags = self.named_tags(&t);
                        if !tags.is_empty() && self.p.enum_constraints {
                            cons.push(Cons { id: eid, v: Cv::Tag(self.s.pick(&tags).0.clone()) });
                        }
                    }
                }
            }
            let id = self.did(if packet { "P" } else { "S" });
            let grand = depth + 1 < self.p.max_depth && (alias || self.s.below(4) == 0);
            self.in_child = true;
            let want_payload = grand || std::mem::take(&mut force_payload_sibling);
            let (fields, discr) = self.gen_fields(if want_payload { 2 } else { 1 }, !packet, None);
            self.in_child = false;
            let has_payload = fields.iter().any(|f| matches!(f.d, FieldDesc::Payload { .. } | FieldDesc::Body));
            if alias {
                self.strata.push("inherit.alias-level".into());
                let mut av = avail.clone();
                av.extend(discr);
                self.decls.push(Decl::Record { id: id.clone(), packet, parent: Some(parent.to_string()), cons: vec![], fields });
                if !packet {
                    self.structs.push(StructInfo { id: id.clone(), min: 0, self_delim: false, static_size: None, is_child: true, derived_static: false });
                }
                self.gen_children(&id, packet, av, depth + 1);
                // an alias level whose subtree got no constrained child would be ambiguous with
                // nothing: acceptable only as single child (n == 1 here)
                continue;
            }
            self.strata.push(format!("inherit.depth={}.{}", depth + 1, if dty.is_some() { "enum" } else { "scalar" }));
            self.decls.push(Decl::Record { id: id.clone(), packet, parent: Some(parent.to_string()), cons, fields });
            if !packet {
                self.structs.push(StructInfo { id: id.clone(), min: 0, self_delim: false, static_size: None, is_child: true, derived_static: false });
            }
            if has_payload && grand {
                let mut av = rest;
                av.extend(discr);
                self.gen_children(&id, packet, av, depth + 1);
            }
        }
    }

    fn gen_packet(&mut self, stratum: Option<usize>) {
        let id = self.did("P");
        let want_children = self.p.inherit && self.s.below(3) == 0;
        let (mut fields, mut discr) = self.gen_fields(if want_children { 2 } else { 1 }, false, stratum);
        if want_children && discr.is_empty() {
            // make sure there is something to constrain: prepend an 8-bit scalar or enum
            let fid = self.fid();
            if self.s.below(2) == 0 {
                fields.insert(0, Field::new(FieldDesc::Scalar { id: fid.clone(), w: 8 }));
                discr.push((fid, 8, None));
            } else {
                let ty = self.enum_of_width(8);
                fields.insert(0, Field::new(FieldDesc::Typedef { id: fid.clone(), ty: ty.clone() }));
                discr.push((fid, 8, Some(ty)));
            }
        }
        self.decls.push(Decl::Record { id: id.clone(), packet: true, parent: None, cons: vec![], fields });
        if want_children {
            self.gen_children(&id, true, discr, 0);
        }
    }

    /// `struct Base { k : 8, _payload_ }  struct Item : Base (k = c) { <static bit-fields> }`
    fn gen_derived_static(&mut self) {
        let base = self.did("S");
        let kid = self.fid();
        self.decls.push(Decl::Record { id: base.clone(), packet: false, parent: None, cons: vec![], fields: vec![Field::new(FieldDesc::Scalar { id: kid.clone(), w: 8 }), Field::new(FieldDesc::Payload { modifier: None })] });
        self.structs.push(StructInfo { id: base.clone(), min: 1, self_delim: false, static_size: None, is_child: false, derived_static: false });
        let n = 1 + self.s.below(2);
        for k in 0..n {
            let id = self.did("S");
            let mut fields = vec![];
            let mut discr = vec![];
            self.in_struct = true;
            self.enums_in_record = 0;
            self.bit_runs(vec![], true, &mut fields, &mut discr);
            let tmp = Desc { big: false, decls: { let mut d = self.decls.clone(); d.push(Decl::Record { id: id.clone(), packet: false, parent: Some(base.clone()), cons: vec![Cons { id: kid.clone(), v: Cv::Int(k as u64 + 1) }], fields: fields.clone() }); d } };
            let sz = crate::refcodec::Ref::new(&tmp).ty_static(&id);
            self.decls.push(Decl::Record { id: id.clone(), packet: false, parent: Some(base.clone()), cons: vec![Cons { id: kid.clone(), v: Cv::Int(k as u64 + 1) }], fields });
            self.structs.push(StructInfo { id, min: sz.unwrap_or(0), self_delim: sz.is_some(), static_size: sz, is_child: true, derived_static: sz.map(|n| n >= 1).unwrap_or(false) });
        }
        self.strata.push("inherit.struct-static-child".into());
    }

    fn gen_struct_family(&mut self) {
        // struct inheritance
        let id = self.did("S");
        let (mut fields, mut discr) = self.gen_fields(2, true, None);
        if discr.is_empty() {
            let fid = self.fid();
            fields.insert(0, Field::new(FieldDesc::Scalar { id: fid.clone(), w: 8 }));
            discr.push((fid, 8, None));
        }
        let si = self.analyse_struct(&id, &fields, false);
        self.decls.push(Decl::Record { id: id.clone(), packet: false, parent: None, cons: vec![], fields });
        self.structs.push(si);
        self.strata.push("inherit.struct".into());
        self.gen_children(&id, false, discr, 0);
        // derived structs of constant size may serve as array elements
        let tmp = Desc { big: false, decls: self.decls.clone() };
        let r = crate::refcodec::Ref::new(&tmp);
        for si in self.structs.iter_mut() {
            if si.is_child {
                if let Some(n) = r.ty_static(&si.id) {
                    if n >= 1 {
                        si.static_size = Some(n);
                        si.min = n;
                        si.self_delim = true;
                        si.derived_static = true;
                    }
                }
            }
        }
    }

    /// factor runs of plain fields out into groups (presentation only)
    fn factor_groups(&mut self) {
        if !self.p.groups {
            return;
        }
        let n = self.decls.len();
        for di in 0..n {
            if self.s.below(4) != 0 {
                continue;
            }
            let Decl::Record { fields, .. } = &self.decls[di] else { continue };
            // candidate run: consecutive unconditioned Scalar/Typedef(enum)/Reserved/Fixed fields that are
            // not flags and not referenced by a condition
            let flags: Vec<String> = fields.iter().filter_map(|f| f.cond.as_ref().map(|c| c.0.clone())).collect();
            let ok = |f: &Field, me: &Gen| -> bool {
                if f.cond.is_some() {
                    return false;
                }
                match &f.d {
                    FieldDesc::Scalar { id, .. } => !flags.contains(id),
                    FieldDesc::Typedef { ty, .. } => me.enums.iter().any(|e| &e.0 == ty),
                    FieldDesc::Reserved { .. } | FieldDesc::FixedScalar { .. } | FieldDesc::FixedEnum { .. } => true,
                    _ => false,
                }
            };
            let idxs: Vec<usize> = (0..fields.len()).filter(|i| ok(&fields[*i], self)).collect();
            if idxs.is_empty() {
                continue;
            }
            let start = *self.s.pick(&idxs);
            let mut end = start;
            while end + 1 < fields.len() && ok(&fields[end + 1], self) && self.s.below(3) > 0 {
                end += 1;
            }
            let mut gfields: Vec<Field> = fields[start..=end].to_vec();
            // fixed fields become plain fields + group constraints
            let mut cons = vec![];
            for f in gfields.iter_mut() {
                match f.d.clone() {
                    FieldDesc::FixedScalar { w, v } if self.s.below(2) == 0 => {
                        let id = self.fid();
                        cons.push(Cons { id: id.clone(), v: Cv::Int(v) });
                        f.d = FieldDesc::Scalar { id, w };
                    }
                    FieldDesc::FixedEnum { ty, tag } if self.s.below(2) == 0 => {
                        let id = self.fid();
                        cons.push(Cons { id: id.clone(), v: Cv::Tag(tag) });
                        f.d = FieldDesc::Typedef { id, ty };
                    }
                    _ => {}
                }
            }
            let gid = self.did("G");
            // optional nesting: split the group body once more
            if gfields.len() >= 2 && self.s.below(3) == 0 {
                let k = 1 + self.s.below(gfields.len() - 1);
                let mut inner: Vec<Field> = gfields.drain(k..).collect();
                let inner_id = self.did("G");
                let inner_ids: Vec<String> = inner.iter().filter_map(|f| f.id().map(|s| s.to_string())).collect();
                let (ic, oc): (Vec<Cons>, Vec<Cons>) = cons.into_iter().partition(|c| inner_ids.contains(&c.id));
                cons = oc;
                // constraints on inner fields may be given at the inner group field or passed from outside
                // a group field can only constrain fields declared directly in that group
                let (mut at_inner, from_outer): (Vec<Cons>, Vec<Cons>) = (ic, vec![]);
                cons.extend(from_outer);
                // the same identifier at two nesting levels: a constrained field of the inner group may carry the
                // name of a constrained field of the enclosing group (both become anonymous fixed fields); the
                // inner use's own constraint must win over the one inherited from the enclosing use
                if !at_inner.is_empty() && !cons.is_empty() && self.s.below(2) == 0 {
                    let outer_id = cons[self.s.below(cons.len())].id.clone();
                    let k = self.s.below(at_inner.len());
                    let inner_old = at_inner[k].id.clone();
                    for f in inner.iter_mut() {
                        match &mut f.d {
                            FieldDesc::Scalar { id, .. } | FieldDesc::Typedef { id, .. } if *id == inner_old => *id = outer_id.clone(),
                            _ => {}
                        }
                    }
                    at_inner[k].id = outer_id;
                    self.strata.push("group.same-name-two-levels".into());
                }
                gfields.push(Field::new(FieldDesc::Group { id: inner_id.clone(), cons: at_inner }));
                self.decls.push(Decl::Group { id: inner_id, fields: inner });
                self.strata.push("group.nested".into());
            }
            self.decls.push(Decl::Group { id: gid.clone(), fields: gfields });
            if !cons.is_empty() {
                self.strata.push("group.constrained".into());
            }
            let Decl::Record { fields, .. } = &mut self.decls[di] else { continue };
            fields.splice(start..=end, [Field::new(FieldDesc::Group { id: gid, cons })]);
        }
    }

    pub fn finish(mut self, big: bool, shuffle: bool) -> (Desc, Vec<String>) {
        self.factor_groups();
        if shuffle {
            for i in (1..self.decls.len()).rev() {
                let j = self.s.below(i + 1);
                self.decls.swap(i, j);
            }
            if self.p.structs_first {
                // stable partition: structs (in generation = dependency order) before everything else
                let order: Vec<String> = self.structs.iter().map(|s| s.id.clone()).collect();
                let (mut st, rest): (Vec<Decl>, Vec<Decl>) = self.decls.drain(..).partition(|d| matches!(d, Decl::Record { packet: false, .. }));
                st.sort_by_key(|d| order.iter().position(|o| o == d.id()).unwrap_or(usize::MAX));
                self.decls = st;
                self.decls.extend(rest);
            }
        }
        (Desc { big, decls: self.decls }, self.strata)
    }
}

/// Number of deterministic strata cycled through by batches.
pub const N_STRATA: usize = 30;

/// Generate one description.  `stratum` (0..N_STRATA) forces one construct.
pub fn gen_desc(stream: &[u32], p: &Profile, stratum: Option<usize>, big: bool) -> (Desc, Vec<String>) {
    let mut s = Src::new(stream);
    let mut g = Gen::new(&mut s, p.clone());
    let st = stratum.map(|x| x % N_STRATA);
    // enum strata 22..27
    if let Some(x) = st {
        if (22..28).contains(&x) {
            let ws: Vec<u32> = [1u32, 3, 7, 8, 9, 16, 24, 32, 63, 64].into_iter().filter(|w| *w >= p.min_enum_width && *w <= p.max_enum_width).collect();
            let w = *g.s.pick(&ws);
            g.gen_enum(w, Some(x - 22));
            g.strata.push(format!("enum.shape={}", x - 22));
        }
    }
    let ncustom = if p.custom { g.s.below(2) } else { 0 };
    for _ in 0..ncustom {
        g.gen_custom();
    }
    let nstruct = g.s.below(3);
    let opt_in_elem = p.optional && st.map(|x| (16..22).contains(&x)).unwrap_or(false) && g.s.below(2) == 0;
    for i in 0..nstruct.max(if opt_in_elem { 1 } else { 0 }) {
        // struct-element array strata need structs first; strata for arrays inside structs too
        let sst = if i == 0 && (opt_in_elem || st.map(|x| x < 22 && g.s.below(3) == 0).unwrap_or(false)) { st } else { None };
        g.gen_struct(sst);
        if i == 0 && opt_in_elem {
            // the struct with the optional field becomes the element of a size-delimited array in the first packet:
            // its encoded_len then feeds a size field
            let id = g.structs.last().map(|s| s.id.clone());
            if g.structs.last().map(|s| s.min >= 1 && s.self_delim).unwrap_or(false) {
                g.prefer_elem = id;
                g.extra_array = Some((3, 2));
                g.strata.push("opt.in-size-delimited-array-element".into());
            }
        }
    }
    if p.struct_inherit && g.s.below(5) == 0 {
        g.gen_struct_family();
    }
    let derived_stratum = matches!(st, Some(28) | Some(29)) && p.struct_inherit && !p.round_trip;
    if derived_stratum {
        g.gen_derived_static();
        g.prefer_derived = true;
    }
    let npacket = 1 + g.s.below(2);
    for i in 0..npacket {
        // strata 28 / 29: an array of derived structs, unsized (28) or counted (29)
        let pst = if i == 0 && derived_stratum { Some(if st == Some(28) { 15 } else { 13 }) } else if i == 0 { st.filter(|x| *x < 22) } else { None };
        g.gen_packet(pst);
    }
    g.finish(big, true)
}

// ------------------------------------------------------------------ syntactic-only generator

/// Arbitrary model AST: syntactically valid, semantically unconstrained (duplicate and undeclared
/// identifiers, widths 0..70 and huge, misplaced fields).  Used where the property quantifies
/// over all parsed files (C10, C12), not only over well-formed ones.
pub fn gen_absurd(stream: &[u32], big: bool) -> Desc {
    let mut s = Src::new(stream);
    let ids = ["A", "B", "C", "Foo", "Bar", "enumx", "packet_", "test1", "Group9", "x", "y", "payload", "size", "type", "if1", "le", "T1", "_a"];
    let fids = ["a", "b", "c", "x", "y", "len", "count", "enumy", "structz", "f_1", "big_endian", "A", "T1"];
    let id = |s: &mut Src, pool: &[&str]| -> String {
        let p = *s.pick(pool);
        if p.starts_with('_') {
            "u".to_string() + p
        } else {
            p.to_string()
        }
    };
    let int = |s: &mut Src| -> u64 {
        match s.below(8) {
            0 => 0,
            1 => 1,
            2 => 8,
            3 => s.range(0, 70),
            4 => s.range(0, 1 << 20),
            5 => u64::MAX,
            6 => 1u64 << s.below(64),
            _ => s.range(0, u64::MAX),
        }
    };
    let width = |s: &mut Src| -> u32 {
        match s.below(6) {
            0 => 8,
            1 => 16,
            2 => s.below(9) as u32,
            3 => s.below(70) as u32,
            4 => 64,
            _ => s.range(0, u32::MAX as u64) as u32,
        }
    };
    let cons = |s: &mut Src| -> Vec<Cons> {
        let n = s.below(3);
        (0..n).map(|_| Cons { id: id(s, &fids), v: if s.bool() { Cv::Int(int(s)) } else { Cv::Tag(id(s, &ids)) } }).collect()
    };
    let fields = |s: &mut Src| -> Vec<Field> {
        let n = s.below(6);
        (0..n)
            .map(|_| {
                let d = match s.below(15) {
                    0 => FieldDesc::Scalar { id: id(s, &fids), w: width(s) },
                    1 => FieldDesc::Typedef { id: id(s, &fids), ty: id(s, &ids) },
                    2 => FieldDesc::Array { id: id(s, &fids), elem: if s.bool() { Elem::Bits(width(s)) } else { Elem::Ty(id(s, &ids)) }, count: if s.bool() { Some(int(s)) } else { None }, modifier: None },
                    3 => FieldDesc::Array { id: id(s, &fids), elem: Elem::Bits(8), count: None, modifier: Some(int(s) % 1000) },
                    4 => FieldDesc::Size { target: if s.below(3) == 0 { "_payload_".into() } else if s.below(3) == 0 { "_body_".into() } else { id(s, &fids) }, w: width(s) },
                    5 => FieldDesc::Count { target: id(s, &fids), w: width(s) },
                    6 => FieldDesc::ElemSize { target: id(s, &fids), w: width(s) },
                    7 => FieldDesc::Payload { modifier: if s.bool() { Some(int(s) % 100) } else { None } },
                    8 => FieldDesc::Body,
                    9 => FieldDesc::FixedScalar { w: width(s), v: int(s) },
                    10 => FieldDesc::FixedEnum { ty: id(s, &ids), tag: id(s, &ids) },
                    11 => FieldDesc::Reserved { w: width(s) },
                    12 => FieldDesc::Padding { n: int(s) },
                    13 => FieldDesc::Group { id: id(s, &ids), cons: cons(s) },
                    _ => FieldDesc::Checksum { id: id(s, &fids) },
                };
                let cond = if s.below(5) == 0 { Some((id(s, &fids), int(s) % 3)) } else { None };
                Field { d, cond }
            })
            .collect()
    };
    let n = s.below(6);
    let mut decls = vec![];
    for _ in 0..n {
        let did = id(&mut s, &ids);
        let d = match s.below(7) {
            0 => {
                let nt = 1 + s.below(4);
                let tags = (0..nt)
                    .map(|_| match s.below(4) {
                        0 | 1 => Tag::Value { id: id(&mut s, &ids), v: int(&mut s) },
                        2 => {
                            let ns = s.below(3);
                            Tag::Range { id: id(&mut s, &ids), lo: int(&mut s), hi: int(&mut s), tags: (0..ns).map(|_| (id(&mut s, &ids), int(&mut s))).collect() }
                        }
                        _ => Tag::Other { id: id(&mut s, &ids) },
                    })
                    .collect();
                Decl::Enum { id: did, width: width(&mut s), tags }
            }
            1 => Decl::Custom { id: did, width: if s.bool() { Some(width(&mut s)) } else { None } },
            2 => Decl::Checksum { id: did, width: width(&mut s), function: "crc".into() },
            3 => {
                let mut f = fields(&mut s);
                if f.is_empty() {
                    f.push(Field::new(FieldDesc::Reserved { w: 8 }));
                }
                Decl::Group { id: did, fields: f }
            }
            _ => Decl::Record { id: did, packet: s.bool(), parent: if s.below(3) == 0 { Some(id(&mut s, &ids)) } else { None }, cons: cons(&mut s), fields: fields(&mut s) },
        };
        decls.push(d);
    }
    Desc { big, decls }
}

//! Types shared between the generated Rust harness glue (which knows the generated
//! packet types) and the property loops (which do not).
use serde::{Deserialize, Serialize};
use serde_json::Value;

#[derive(Clone, Debug, PartialEq, Serialize, Deserialize)]
pub enum Out<T> {
    Ok(T),
    /// error value: variant name, Debug rendering
    Err { kind: String, detail: String },
    Panic(String),
}

impl<T> Out<T> {
    pub fn is_ok(&self) -> bool {
        matches!(self, Out::Ok(_))
    }
    pub fn is_panic(&self) -> bool {
        matches!(self, Out::Panic(_))
    }
    pub fn kind(&self) -> String {
        match self {
            Out::Ok(_) => "Ok".into(),
            Out::Err { kind, .. } => format!("Err({kind})"),
            Out::Panic(m) => format!("Panic({})", panic_class(m)),
        }
    }
    pub fn ok(&self) -> Option<&T> {
        match self {
            Out::Ok(v) => Some(v),
            _ => None,
        }
    }
    pub fn err_kind(&self) -> Option<&str> {
        match self {
            Out::Err { kind, .. } => Some(kind),
            _ => None,
        }
    }
}

/// Panic messages with numbers and quoted parts blanked, so that signatures are stable.
pub fn panic_class(m: &str) -> String {
    let mut out = String::new();
    let mut last_digit = false;
    for c in m.chars() {
        if c.is_ascii_digit() {
            if !last_digit {
                out.push('N');
            }
            last_digit = true;
        } else {
            last_digit = false;
            out.push(c);
        }
    }
    out.chars().take(100).collect()
}

#[derive(Clone, Debug, Serialize, Deserialize)]
pub struct DecReport {
    /// decode(b): value JSON and length of the returned remainder
    pub decode: Out<(Value, usize)>,
    /// the remainder is the tail of the input (pointer identity)
    pub suffix_ok: bool,
    pub full: Out<Value>,
    /// decode_mut: Ok(len of the slice afterwards)
    pub mutr: Out<usize>,
    /// decode_mut law: slice advanced exactly to decode's remainder / untouched on error
    pub mut_ok: bool,
    /// encode_to_vec of the decode_full value
    pub reenc: Option<Out<Vec<u8>>>,
    /// bytes allocated while running decode(b)
    pub alloc: usize,
}

#[derive(Clone, Debug, Serialize, Deserialize)]
pub struct EncReport {
    pub from_json: Result<(), String>,
    pub len: Out<usize>,
    pub to_vec: Out<Vec<u8>>,
    pub to_bytes: Out<Vec<u8>>,
    pub into_vec: Out<Vec<u8>>,
    pub into_bytesmut: Out<Vec<u8>>,
    /// whole buffer after encoding into a Vec pre-filled with the given prefix
    pub prefixed: Out<Vec<u8>>,
    /// decode_full(to_vec): (== original value, JSON of the decoded value)
    pub rt: Option<Out<(bool, Value)>>,
    /// to_json(from_json(j)) (serde round trip of the value itself)
    pub json_back: Option<Value>,
}

pub struct TypeOps {
    pub desc: usize,
    pub name: String,
    pub dec: Box<dyn Fn(&[u8]) -> DecReport>,
    pub enc: Box<dyn Fn(&Value, &[u8]) -> EncReport>,
    /// specialize() of a parent value given as JSON: {"Variant": value} or "None"
    pub spec: Option<Box<dyn Fn(&Value) -> Out<Value>>>,
}

pub struct ConvOps {
    pub desc: usize,
    pub ancestor: String,
    pub descendant: String,
    /// Descendant::try_from(&ancestor)
    pub down: Box<dyn Fn(&Value) -> Out<Value>>,
    /// Ancestor::try_from(&descendant)
    pub up: Box<dyn Fn(&Value) -> Out<Value>>,
}

#[derive(Clone, Debug, Serialize, Deserialize)]
pub struct EnumVal {
    pub debug: String,
    pub back: u64,
    /// (target type, value as i128) for each generated widening From impl
    pub wide: Vec<(String, i128)>,
}

pub struct EnumOps {
    pub desc: usize,
    pub name: String,
    /// bits of the backing integer type
    pub backing: u32,
    /// None: x does not fit the backing type; Some(None): try_from failed
    pub try_from: Box<dyn Fn(u64) -> Option<Out<Option<EnumVal>>>>,
    pub default: Box<dyn Fn() -> Out<EnumVal>>,
}

#[derive(Default)]
pub struct Table {
    pub types: Vec<TypeOps>,
    pub convs: Vec<ConvOps>,
    pub enums: Vec<EnumOps>,
}

#[derive(Clone, Debug, Serialize, Deserialize)]
pub struct BatchDesc {
    pub idx: usize,
    pub desc: crate::model::Desc,
    pub text: String,
    pub profile: String,
    pub strata: Vec<String>,
    /// index of the other-endian twin in the batch
    pub twin: Option<usize>,
    /// where the description came from: `gen`, `corpus:<name>`
    pub origin: String,
}

#[derive(Clone, Debug, Serialize, Deserialize)]
pub struct Batch {
    pub seed: u64,
    pub tier: String,
    pub descs: Vec<BatchDesc>,
}

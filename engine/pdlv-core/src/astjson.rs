//! Adapter: the JSON form of pdl's *parsed* AST (`serde_json::to_value(&ast::File)`)
//! -> the engine's model.  Used for calibration on the canonical file, for the
//! repository seed corpus and for replaying textual descriptions.  Group fields,
//! constraints etc. are kept as written (the model does its own flattening).
use crate::model::*;
use serde_json::Value;

fn s(v: &Value, k: &str) -> Option<String> {
    v.get(k).and_then(|x| x.as_str()).map(|x| x.to_string())
}
fn u(v: &Value, k: &str) -> Option<u64> {
    v.get(k).and_then(|x| x.as_u64())
}
fn modifier(v: &Value) -> Option<u64> {
    s(v, "size_modifier").and_then(|m| m.trim_start_matches('+').parse().ok())
}

fn cons(v: &Value) -> Option<Cons> {
    let id = s(v, "id")?;
    let cv = match (u(v, "value"), s(v, "tag_id")) {
        (Some(x), _) => Cv::Int(x),
        (None, Some(t)) => Cv::Tag(t),
        _ => return None,
    };
    Some(Cons { id, v: cv })
}

fn field(v: &Value) -> Result<Field, String> {
    let kind = s(v, "kind").ok_or("field kind")?;
    let w = |k: &str| u(v, k).map(|x| x as u32);
    let d = match kind.as_str() {
        "checksum_field" => FieldDesc::Checksum { id: s(v, "field_id").ok_or("field_id")? },
        "padding_field" => FieldDesc::Padding { n: u(v, "size").ok_or("size")? },
        "size_field" => FieldDesc::Size { target: s(v, "field_id").ok_or("field_id")?, w: w("width").ok_or("width")? },
        "count_field" => FieldDesc::Count { target: s(v, "field_id").ok_or("field_id")?, w: w("width").ok_or("width")? },
        "elementsize_field" => FieldDesc::ElemSize { target: s(v, "field_id").ok_or("field_id")?, w: w("width").ok_or("width")? },
        "body_field" => FieldDesc::Body,
        "payload_field" => FieldDesc::Payload { modifier: modifier(v) },
        "fixed_field" => {
            if let Some(e) = s(v, "enum_id") {
                FieldDesc::FixedEnum { ty: e, tag: s(v, "tag_id").ok_or("tag_id")? }
            } else {
                FieldDesc::FixedScalar { w: w("width").ok_or("width")?, v: u(v, "value").ok_or("value")? }
            }
        }
        "reserved_field" => FieldDesc::Reserved { w: w("width").ok_or("width")? },
        "array_field" => FieldDesc::Array {
            id: s(v, "id").ok_or("id")?,
            elem: match (w("width"), s(v, "type_id")) {
                (Some(x), _) => Elem::Bits(x),
                (None, Some(t)) => Elem::Ty(t),
                _ => return Err("array element".into()),
            },
            count: u(v, "size"),
            modifier: modifier(v),
        },
        "scalar_field" => FieldDesc::Scalar { id: s(v, "id").ok_or("id")?, w: w("width").ok_or("width")? },
        "typedef_field" => FieldDesc::Typedef { id: s(v, "id").ok_or("id")?, ty: s(v, "type_id").ok_or("type_id")? },
        "group_field" => FieldDesc::Group {
            id: s(v, "group_id").ok_or("group_id")?,
            cons: v.get("constraints").and_then(|c| c.as_array()).map(|a| a.iter().filter_map(cons).collect()).unwrap_or_default(),
        },
        k => return Err(format!("unknown field kind {k}")),
    };
    let cond = match v.get("cond") {
        Some(c) if !c.is_null() => Some((s(c, "id").ok_or("cond id")?, u(c, "value").ok_or("cond value")?)),
        _ => None,
    };
    Ok(Field { d, cond })
}

fn fields(v: &Value) -> Result<Vec<Field>, String> {
    v.get("fields").and_then(|f| f.as_array()).ok_or("fields")?.iter().map(field).collect()
}

pub fn desc_from_ast_json(v: &Value) -> Result<Desc, String> {
    let big = v.get("endianness").and_then(|e| s(e, "value")).ok_or("endianness")? == "big_endian";
    let mut decls = vec![];
    for d in v.get("declarations").and_then(|d| d.as_array()).ok_or("declarations")? {
        let kind = s(d, "kind").ok_or("decl kind")?;
        let id = || s(d, "id").ok_or("decl id".to_string());
        match kind.as_str() {
            "enum_declaration" => {
                let mut tags = vec![];
                for t in d.get("tags").and_then(|t| t.as_array()).ok_or("tags")? {
                    let tid = s(t, "id").ok_or("tag id")?;
                    if let Some(r) = t.get("range") {
                        let sub = t
                            .get("tags")
                            .and_then(|x| x.as_array())
                            .map(|a| a.iter().filter_map(|x| Some((s(x, "id")?, u(x, "value")?))).collect())
                            .unwrap_or_default();
                        tags.push(Tag::Range { id: tid, lo: u(r, "start").ok_or("start")?, hi: u(r, "end").ok_or("end")?, tags: sub });
                    } else if let Some(x) = u(t, "value") {
                        tags.push(Tag::Value { id: tid, v: x });
                    } else {
                        tags.push(Tag::Other { id: tid });
                    }
                }
                decls.push(Decl::Enum { id: id()?, width: u(d, "width").ok_or("width")? as u32, tags });
            }
            "custom_field_declaration" => decls.push(Decl::Custom { id: id()?, width: u(d, "width").map(|x| x as u32) }),
            "checksum_declaration" => decls.push(Decl::Checksum { id: id()?, width: u(d, "width").ok_or("width")? as u32, function: s(d, "function").unwrap_or_default() }),
            "group_declaration" => decls.push(Decl::Group { id: id()?, fields: fields(d)? }),
            "packet_declaration" | "struct_declaration" => decls.push(Decl::Record {
                id: id()?,
                packet: kind == "packet_declaration",
                parent: s(d, "parent_id"),
                cons: d.get("constraints").and_then(|c| c.as_array()).map(|a| a.iter().filter_map(cons).collect()).unwrap_or_default(),
                fields: fields(d)?,
            }),
            "test_declaration" => {}
            k => return Err(format!("unknown declaration kind {k}")),
        }
    }
    Ok(Desc { big, decls })
}

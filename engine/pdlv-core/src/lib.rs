pub mod choice;
pub mod model;
pub mod print;
pub mod refcodec;
pub mod astjson;
pub mod gen;

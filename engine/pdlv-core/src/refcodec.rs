//! Reference encoder / decoder (rules R1-R7 of DESIGN.md section 3), written
//! against the engine's own model.  It shares no code with pdl-compiler.
use crate::model::*;
use serde_json::{json, Map, Value};
use std::collections::{BTreeMap, BTreeSet};

#[derive(Clone, Debug, PartialEq, Eq, PartialOrd, Ord, serde::Serialize, serde::Deserialize)]
pub enum EncErr {
    ScalarRange,
    SizeOverflow,
    CountOverflow,
    ElementSizeMismatch,
    InconsistentCondition,
    PaddingOverflow,
    /// the JSON value does not have the shape of the type (harness/generator bug, or an
    /// enum integer that no variant carries)
    BadValue(String),
}

#[derive(Clone, Debug, PartialEq, Eq, PartialOrd, Ord, serde::Serialize, serde::Deserialize)]
pub enum DecErr {
    Length,
    TrailingBytes,
    FixedValue,
    EnumValue,
    ArraySize,
    ConstraintValue,
    TrailingBytesInArray,
}

impl DecErr {
    /// name of the pdl_runtime::DecodeError variant
    pub fn rust_name(&self) -> &'static str {
        match self {
            DecErr::Length => "LengthError",
            DecErr::TrailingBytes => "TrailingBytesError",
            DecErr::FixedValue => "FixedValueError",
            DecErr::EnumValue => "EnumValueError",
            DecErr::ArraySize => "ArraySizeError",
            DecErr::ConstraintValue => "ConstraintValueError",
            DecErr::TrailingBytesInArray => "TrailingBytesInArray",
        }
    }
}

impl EncErr {
    pub fn rust_name(&self) -> &'static str {
        match self {
            EncErr::ScalarRange => "InvalidScalarValue",
            EncErr::SizeOverflow | EncErr::PaddingOverflow => "SizeOverflow",
            EncErr::CountOverflow => "CountOverflow",
            EncErr::ElementSizeMismatch => "InvalidArrayElementSize",
            EncErr::InconsistentCondition => "InconsistentConditionValue",
            EncErr::BadValue(_) => "BadValue",
        }
    }
}

#[derive(Clone, Debug, PartialEq, Eq, serde::Serialize, serde::Deserialize)]
pub enum BitKind {
    Scalar,
    Flag,
    Enum,
    Fixed,
    Reserved,
    Size,
    Count,
    ElemSize,
}

#[derive(Clone, Debug, PartialEq, Eq, serde::Serialize, serde::Deserialize)]
pub struct BitF {
    pub off: u32,
    pub w: u32,
    pub kind: BitKind,
    pub name: String,
}

#[derive(Clone, Debug, PartialEq, Eq, serde::Serialize, serde::Deserialize)]
pub enum ChunkKind {
    BitGroup,
    ScalarElem,
    EnumElem,
    OptScalar,
    OptEnum,
    Custom,
    Bytes,
    Padding,
}

#[derive(Clone, Debug, PartialEq, Eq, serde::Serialize, serde::Deserialize)]
pub struct Chunk {
    pub off: usize,
    pub len: usize,
    pub kind: ChunkKind,
    pub owner: String,
    pub bits: Vec<BitF>,
}

impl Chunk {
    /// chunks whose octets are reversed in the other-endian twin
    pub fn swaps(&self) -> bool {
        !matches!(self.kind, ChunkKind::Bytes | ChunkKind::Padding)
    }
}

pub type Events = BTreeSet<String>;

pub struct Encoded {
    pub bytes: Vec<u8>,
    pub layout: Vec<Chunk>,
    pub events: Events,
}

pub struct Ref<'a> {
    pub d: &'a Desc,
    flats: std::cell::RefCell<BTreeMap<String, std::rc::Rc<Flat>>>,
    /// when set, range errors of the encoder are collected here and encoding goes on with the masked value
    collect: std::cell::RefCell<Option<Vec<EncErr>>>,
    /// input generation only: every element of an array that has an element-size field is followed by this many
    /// zero octets and the element-size field grows by as much (an element shorter than its window)
    pub es_pad: std::cell::Cell<usize>,
    /// set by enc_array when es_pad was applied to at least one element
    pub es_padded: std::cell::Cell<bool>,
    es_ids: BTreeSet<String>,
}

fn mask(w: u32) -> u64 {
    if w >= 64 {
        u64::MAX
    } else {
        (1u64 << w) - 1
    }
}

fn bad<T>(s: impl Into<String>) -> Result<T, EncErr> {
    Err(EncErr::BadValue(s.into()))
}

impl<'a> Ref<'a> {
    pub fn new(d: &'a Desc) -> Ref<'a> {
        let mut es_ids = BTreeSet::new();
        for decl in &d.decls {
            let fields = match decl {
                Decl::Record { fields, .. } | Decl::Group { fields, .. } => fields,
                _ => continue,
            };
            for f in fields {
                if let FieldDesc::ElemSize { target, .. } = &f.d {
                    es_ids.insert(target.clone());
                }
            }
        }
        Ref { d, flats: Default::default(), collect: Default::default(), es_pad: Default::default(), es_padded: Default::default(), es_ids }
    }

    pub fn flat(&self, id: &str) -> std::rc::Rc<Flat> {
        if let Some(f) = self.flats.borrow().get(id) {
            return f.clone();
        }
        let f = std::rc::Rc::new(self.d.flat(id).unwrap_or_else(|e| panic!("model error for {id}: {}", e.0)));
        self.flats.borrow_mut().insert(id.to_string(), f.clone());
        f
    }

    fn int_bytes(&self, v: u64, n: usize, out: &mut Vec<u8>) {
        let le = v.to_le_bytes();
        if self.d.big {
            for i in (0..n).rev() {
                out.push(le[i]);
            }
        } else {
            out.extend_from_slice(&le[..n]);
        }
    }

    fn bytes_int(&self, b: &[u8]) -> u64 {
        let mut v = 0u64;
        if self.d.big {
            for x in b {
                v = (v << 8) | *x as u64;
            }
        } else {
            for x in b.iter().rev() {
                v = (v << 8) | *x as u64;
            }
        }
        v
    }

    pub fn enum_valid(&self, ty: &str, v: u64) -> bool {
        let (w, tags) = self.d.enum_tags(ty).expect("enum");
        classify_enum(w, tags, v) != EnumClass::Invalid
    }

    // ------------------------------------------------------------ static sizes (octets)

    /// static octet size of a declaration used as a field type / array element, None if not static
    pub fn ty_static(&self, ty: &str) -> Option<u64> {
        match self.d.get(ty)? {
            Decl::Enum { width, .. } => Some(*width as u64 / 8),
            Decl::Custom { width, .. } => width.map(|w| w as u64 / 8),
            Decl::Checksum { width, .. } => Some(*width as u64 / 8),
            Decl::Group { .. } => None,
            Decl::Record { .. } => {
                // whole image: every level's own fields; the payload of every level but the last is
                // the next level, the last level must have none
                let fl = self.d.flat(ty).ok()?;
                let mut bits = 0u64;
                let n = fl.levels.len();
                for (i, l) in fl.levels.iter().enumerate() {
                    for f in &l.fields {
                        if let FK::Payload { .. } = f.k {
                            if i + 1 == n {
                                return None;
                            }
                            continue;
                        }
                        bits = bits.checked_add(self.field_static_bits(f)?)?;
                    }
                }
                Some(bits / 8)
            }
        }
    }

    pub fn field_static_bits(&self, f: &FF) -> Option<u64> {
        if f.cond.is_some() {
            return None;
        }
        if let Some(w) = f.bits() {
            return Some(w as u64);
        }
        match &f.k {
            FK::Padding { .. } => Some(0),
            FK::Checksum { .. } => Some(0),
            FK::Array { elem, count, padding, .. } => {
                if let Some(p) = padding {
                    return p.checked_mul(8);
                }
                let ew = self.elem_static(elem)?;
                let c = (*count)?;
                c.checked_mul(ew)?.checked_mul(8)
            }
            FK::Struct { ty, .. } | FK::Custom { ty, .. } => self.ty_static(ty).map(|x| x * 8),
            _ => None,
        }
    }

    pub fn elem_static(&self, e: &Elem) -> Option<u64> {
        match e {
            Elem::Bits(w) => Some(*w as u64 / 8),
            Elem::Ty(t) => self.ty_static(t),
        }
    }

    // ------------------------------------------------------------ encode

    pub fn encode(&self, ty: &str, val: &Value) -> Result<Encoded, EncErr> {
        self.encode_events(ty, val).0
    }

    /// like `encode`, but the events are also returned when encoding fails
    /// A range error of the encoder: returned at once, or collected (see `encode_all_errors`).
    fn raise(&self, e: EncErr) -> Result<(), EncErr> {
        match self.collect.borrow_mut().as_mut() {
            Some(v) => {
                v.push(e);
                Ok(())
            }
            None => Err(e),
        }
    }

    /// Every range error that applies to `val` (not only the first in the reference's own order): the encoder
    /// goes on past each one with the value masked to its field.
    pub fn encode_all_errors(&self, ty: &str, val: &Value) -> Vec<EncErr> {
        *self.collect.borrow_mut() = Some(vec![]);
        let (r, _) = self.encode_events(ty, val);
        let mut errs = self.collect.borrow_mut().take().unwrap_or_default();
        if let Err(e) = r {
            errs.push(e);
        }
        errs
    }

    pub fn encode_events(&self, ty: &str, val: &Value) -> (Result<Encoded, EncErr>, Events) {
        let fl = self.flat(ty);
        let mut ev = Events::new();
        let Some(obj) = val.as_object() else { return (bad("value is not an object"), ev) };
        match self.enc_level(&fl, 0, obj, &mut ev) {
            Ok((bytes, layout)) => (Ok(Encoded { bytes, layout, events: ev.clone() }), ev),
            Err(e) => (Err(e), ev),
        }
    }

    fn get_u64(&self, obj: &Map<String, Value>, id: &str) -> Result<u64, EncErr> {
        match obj.get(id).and_then(|v| v.as_u64()) {
            Some(v) => Ok(v),
            None => bad(format!("field {id}: expected unsigned integer, got {:?}", obj.get(id))),
        }
    }

    fn enc_elem(&self, elem: &Elem, v: &Value, owner: &str, base: usize, out: &mut Vec<u8>, lay: &mut Vec<Chunk>, ev: &mut Events) -> Result<(), EncErr> {
        match elem {
            Elem::Bits(w) => {
                let Some(x) = v.as_u64() else { return bad("array element") };
                if x > mask(*w) {
                    ev.insert("scalar-elem>width".into());
                    self.raise(EncErr::ScalarRange)?;
                }
                let x = x & mask(*w);
                let n = *w as usize / 8;
                lay.push(Chunk { off: base + out.len(), len: n, kind: if n == 1 { ChunkKind::Bytes } else { ChunkKind::ScalarElem }, owner: owner.into(), bits: vec![] });
                self.int_bytes(x, n, out);
            }
            Elem::Ty(t) => match self.d.ty_kind(t) {
                Some(TyKind::Enum) => {
                    let Some(x) = v.as_u64() else { return bad("enum element") };
                    let (w, _) = self.d.enum_tags(t).unwrap();
                    if !self.enum_valid(t, x) {
                        return bad("enum element has no variant");
                    }
                    let n = w as usize / 8;
                    lay.push(Chunk { off: base + out.len(), len: n, kind: ChunkKind::EnumElem, owner: owner.into(), bits: vec![] });
                    self.int_bytes(x, n, out);
                }
                Some(TyKind::Custom(Some(w))) => {
                    let Some(x) = v.as_u64() else { return bad("custom element") };
                    if x > mask(w) {
                        self.raise(EncErr::ScalarRange)?;
                    }
                    let x = x & mask(w);
                    let n = w as usize / 8;
                    lay.push(Chunk { off: base + out.len(), len: n, kind: ChunkKind::Custom, owner: owner.into(), bits: vec![] });
                    self.int_bytes(x, n, out);
                }
                Some(TyKind::Struct) => {
                    let Some(o) = v.as_object() else { return bad("struct element") };
                    let fl = self.flat(t);
                    let (b, l) = self.enc_level(&fl, 0, o, ev)?;
                    let off = base + out.len();
                    lay.extend(l.into_iter().map(|mut c| {
                        c.off += off;
                        c
                    }));
                    out.extend(b);
                }
                _ => return bad("unsupported element type"),
            },
        }
        Ok(())
    }

    pub fn enc_elem_pub(&self, elem: &Elem, v: &Value, out: &mut Vec<u8>, lay: &mut Vec<Chunk>, ev: &mut Events) -> Result<(), EncErr> {
        self.enc_elem(elem, v, "", 0, out, lay, ev)
    }

    fn enc_array(&self, f: &FF, obj: &Map<String, Value>, base: usize, ev: &mut Events) -> Result<(Vec<u8>, Vec<Chunk>, Vec<usize>), EncErr> {
        let FK::Array { id, elem, count, .. } = &f.k else { unreachable!() };
        let Some(items) = obj.get(id).and_then(|v| v.as_array()) else { return bad(format!("array {id}")) };
        if let Some(c) = count {
            if items.len() as u64 != *c {
                return bad("static array length");
            }
        }
        let mut out = vec![];
        let mut lay = vec![];
        let mut sizes = vec![];
        for it in items {
            let before = out.len();
            self.enc_elem(elem, it, id, base, &mut out, &mut lay, ev)?;
            if self.es_pad.get() > 0 && self.es_ids.contains(id) {
                out.extend(std::iter::repeat(0u8).take(self.es_pad.get()));
                self.es_padded.set(true);
            }
            sizes.push(out.len() - before);
        }
        Ok((out, lay, sizes))
    }

    fn enc_level(&self, fl: &Flat, li: usize, obj: &Map<String, Value>, ev: &mut Events) -> Result<(Vec<u8>, Vec<Chunk>), EncErr> {
        let level = &fl.levels[li];
        let fields = &level.fields;
        // payload of this level
        let has_payload = fields.iter().any(|f| matches!(f.k, FK::Payload { .. }));
        let (payload, payload_lay): (Vec<u8>, Vec<Chunk>) = if !has_payload {
            (vec![], vec![])
        } else if li + 1 < fl.levels.len() {
            self.enc_level(fl, li + 1, obj, ev)?
        } else {
            let Some(p) = obj.get("payload").and_then(|v| v.as_array()) else { return bad("payload") };
            let mut b = vec![];
            for x in p {
                match x.as_u64() {
                    Some(v) if v < 256 => b.push(v as u8),
                    _ => return bad("payload octet"),
                }
            }
            (b, vec![])
        };
        if !has_payload && li + 1 < fl.levels.len() {
            // child of a parent without payload: child must have no fields
            let (b, _) = self.enc_level(fl, li + 1, obj, ev)?;
            if !b.is_empty() {
                return bad("child fields under a parent without payload");
            }
        }
        let mut out: Vec<u8> = vec![];
        let mut lay: Vec<Chunk> = vec![];
        let mut acc: u128 = 0;
        let mut sh: u32 = 0;
        let mut bits: Vec<BitF> = vec![];
        let by_id = |id: &str| fields.iter().find(|f| f.id() == Some(id));
        for f in fields {
            if let Some(w) = f.bits() {
                let (v, kind, name): (u64, BitKind, String) = match &f.k {
                    FK::Scalar { id, .. } => (
                        match fl.cons.get(id) {
                            Some(c) => *c,
                            None => self.get_u64(obj, id)?,
                        },
                        BitKind::Scalar,
                        id.clone(),
                    ),
                    FK::Enum { id, ty, .. } => {
                        let v = match fl.cons.get(id) {
                            Some(c) => *c,
                            None => {
                                let v = self.get_u64(obj, id)?;
                                if !self.enum_valid(ty, v) {
                                    return bad(format!("enum field {id} = {v} has no variant"));
                                }
                                v
                            }
                        };
                        (v, BitKind::Enum, id.clone())
                    }
                    FK::Flag { id, opts } => {
                        let mut val: Option<u64> = None;
                        for (oid, cv) in opts {
                            let present = !obj.get(oid).map(|v| v.is_null()).unwrap_or(true);
                            let want = if present { *cv } else { 1 - *cv };
                            match val {
                                None => val = Some(want),
                                Some(x) if x != want => {
                                    ev.insert("inconsistent-flag".into());
                                    self.raise(EncErr::InconsistentCondition)?;
                                }
                                _ => {}
                            }
                        }
                        (val.unwrap_or(0), BitKind::Flag, id.clone())
                    }
                    FK::Fixed { v, .. } => (*v, BitKind::Fixed, "_fixed_".into()),
                    FK::Reserved { .. } => (0, BitKind::Reserved, "_reserved_".into()),
                    FK::Size { target, .. } => {
                        let v = if target == "_payload_" || target == "_body_" {
                            let m = fields.iter().find_map(|x| if let FK::Payload { modifier, .. } = x.k { Some(modifier) } else { None }).unwrap_or(0);
                            payload.len() as u64 + m
                        } else {
                            let Some(af) = by_id(target) else { return bad("size target") };
                            let FK::Array { modifier, .. } = &af.k else { return bad("size target kind") };
                            let (b, _, _) = self.enc_array(af, obj, 0, ev)?;
                            b.len() as u64 + modifier
                        };
                        if v > mask(w) {
                            ev.insert("size>field".into());
                            self.raise(EncErr::SizeOverflow)?;
                        }
                        (v & mask(w), BitKind::Size, target.clone())
                    }
                    FK::Count { target, .. } => {
                        let Some(items) = obj.get(target).and_then(|v| v.as_array()) else { return bad("count target") };
                        let v = items.len() as u64;
                        if v > mask(w) {
                            ev.insert("count>field".into());
                            self.raise(EncErr::CountOverflow)?;
                        }
                        (v & mask(w), BitKind::Count, target.clone())
                    }
                    FK::ElemSize { target, .. } => {
                        let Some(af) = by_id(target) else { return bad("elementsize target") };
                        let (_, _, sizes) = self.enc_array(af, obj, 0, ev)?;
                        let v = sizes.first().copied().unwrap_or(0) as u64;
                        if sizes.iter().any(|s| *s as u64 != v) {
                            ev.insert("elemsize-mismatch".into());
                            self.raise(EncErr::ElementSizeMismatch)?;
                        }
                        if v == 0 {
                            ev.insert("elemsize=0".into());
                        }
                        if v > mask(w) {
                            ev.insert("elemsize>field".into());
                            self.raise(EncErr::SizeOverflow)?;
                        }
                        (v & mask(w), BitKind::ElemSize, target.clone())
                    }
                    _ => unreachable!(),
                };
                if v > mask(w) {
                    ev.insert("scalar>width".into());
                    self.raise(EncErr::ScalarRange)?;
                }
                let v = v & mask(w);
                acc |= (v as u128) << sh;
                bits.push(BitF { off: sh, w, kind, name });
                sh += w;
                if sh % 8 == 0 {
                    let n = (sh / 8) as usize;
                    if n > 8 {
                        return bad("bit-field group wider than 64 bits");
                    }
                    lay.push(Chunk { off: out.len(), len: n, kind: ChunkKind::BitGroup, owner: level.id.clone(), bits: std::mem::take(&mut bits) });
                    self.int_bytes(acc as u64, n, &mut out);
                    acc = 0;
                    sh = 0;
                }
                continue;
            }
            if sh != 0 {
                return bad("non bit-field at a bit offset");
            }
            if let Some(_) = &f.cond {
                let id = f.id().unwrap();
                let v = obj.get(id).cloned().unwrap_or(Value::Null);
                if v.is_null() {
                    continue;
                }
                match &f.k {
                    FK::Scalar { w, .. } => {
                        let Some(x) = v.as_u64() else { return bad("optional scalar") };
                        if x > mask(*w) {
                            ev.insert("scalar>width".into());
                            self.raise(EncErr::ScalarRange)?;
                        }
                        let x = x & mask(*w);
                        let n = *w as usize / 8;
                        lay.push(Chunk { off: out.len(), len: n, kind: ChunkKind::OptScalar, owner: id.into(), bits: vec![] });
                        self.int_bytes(x, n, &mut out);
                    }
                    FK::Enum { ty, w, .. } => {
                        let Some(x) = v.as_u64() else { return bad("optional enum") };
                        if !self.enum_valid(ty, x) {
                            return bad("optional enum has no variant");
                        }
                        let n = *w as usize / 8;
                        lay.push(Chunk { off: out.len(), len: n, kind: ChunkKind::OptEnum, owner: id.into(), bits: vec![] });
                        self.int_bytes(x, n, &mut out);
                    }
                    FK::Struct { ty, .. } => {
                        self.enc_elem(&Elem::Ty(ty.clone()), &v, id, 0, &mut out, &mut lay, ev)?;
                    }
                    _ => return bad("unsupported optional field"),
                }
                continue;
            }
            match &f.k {
                FK::Array { id, padding, .. } => {
                    let base = out.len();
                    let (b, l, _) = self.enc_array(f, obj, base, ev)?;
                    lay.extend(l);
                    let blen = b.len();
                    out.extend(b);
                    if let Some(p) = padding {
                        if blen as u64 > *p {
                            ev.insert("array>padding".into());
                            self.raise(EncErr::PaddingOverflow)?;
                        }
                        let pad = (*p as usize).saturating_sub(blen);
                        if pad > 0 {
                            lay.push(Chunk { off: out.len(), len: pad, kind: ChunkKind::Padding, owner: id.clone(), bits: vec![] });
                            out.extend(std::iter::repeat(0).take(pad));
                        }
                    }
                }
                FK::Struct { id, ty } | FK::Custom { id, ty, .. } => {
                    let Some(v) = obj.get(id) else { return bad(format!("missing {id}")) };
                    self.enc_elem(&Elem::Ty(ty.clone()), v, id, 0, &mut out, &mut lay, ev)?;
                }
                FK::Payload { .. } => {
                    let base = out.len();
                    if payload_lay.is_empty() && !payload.is_empty() {
                        lay.push(Chunk { off: base, len: payload.len(), kind: ChunkKind::Bytes, owner: "payload".into(), bits: vec![] });
                    }
                    lay.extend(payload_lay.iter().cloned().map(|mut c| {
                        c.off += base;
                        c
                    }));
                    out.extend_from_slice(&payload);
                }
                FK::Padding { .. } | FK::Checksum { .. } => {}
                _ => return bad("unexpected field"),
            }
        }
        if sh != 0 {
            return bad("declaration does not end on an octet boundary");
        }
        Ok((out, lay))
    }

    // ------------------------------------------------------------ decode

    /// Decode `data` as `ty`.  Returns the value and the number of unconsumed octets.
    pub fn decode(&self, ty: &str, data: &[u8], full: bool, ev: &mut Events) -> Result<(Value, usize), DecErr> {
        let fl = self.flat(ty);
        let mut val = Map::new();
        let mut span: Vec<u8> = data.to_vec();
        let mut rest = 0usize;
        let n = fl.levels.len();
        // numeric values of all decoded fields incl. constrained ones
        let mut raw: BTreeMap<String, u64> = BTreeMap::new();
        for (i, level) in fl.levels.iter().enumerate() {
            for c in &level.cons {
                let exp = fl.cons[&c.id];
                if raw.get(&c.id) != Some(&exp) {
                    ev.insert("constraint-violated".into());
                    return Err(DecErr::ConstraintValue);
                }
            }
            let (v, r, payload) = self.dec_fields(level, &span, ev)?;
            for (k, x) in v {
                if let Some(u) = x.as_u64() {
                    raw.insert(k.clone(), u);
                }
                val.insert(k, x);
            }
            if i == 0 {
                rest = r;
            } else if r != 0 {
                ev.insert("trailing-in-parent-payload".into());
                return Err(DecErr::TrailingBytes);
            }
            if i + 1 < n {
                match payload {
                    Some(p) => span = p,
                    None => span = vec![],
                }
            } else if let Some(p) = payload {
                val.insert("payload".into(), Value::Array(p.into_iter().map(|b| json!(b)).collect()));
            }
        }
        if full && rest != 0 {
            return Err(DecErr::TrailingBytes);
        }
        for k in fl.cons.keys() {
            val.remove(k);
        }
        Ok((Value::Object(val), rest))
    }

    fn dec_elem(&self, elem: &Elem, b: &[u8], ev: &mut Events) -> Result<(Value, usize), DecErr> {
        // returns value and octets consumed
        match elem {
            Elem::Bits(w) => {
                let n = *w as usize / 8;
                if b.len() < n {
                    return Err(DecErr::Length);
                }
                Ok((json!(self.bytes_int(&b[..n])), n))
            }
            Elem::Ty(t) => match self.d.ty_kind(t) {
                Some(TyKind::Enum) => {
                    let n = self.d.enum_tags(t).unwrap().0 as usize / 8;
                    if b.len() < n {
                        return Err(DecErr::Length);
                    }
                    let v = self.bytes_int(&b[..n]);
                    if !self.enum_valid(t, v) {
                        ev.insert("enum-invalid@elem".into());
                        return Err(DecErr::EnumValue);
                    }
                    Ok((json!(v), n))
                }
                Some(TyKind::Custom(Some(w))) => {
                    let n = w as usize / 8;
                    if b.len() < n {
                        ev.insert("truncated@custom".into());
                        return Err(DecErr::Length);
                    }
                    Ok((json!(self.bytes_int(&b[..n])), n))
                }
                Some(TyKind::Struct) => {
                    // a derived struct of constant size is cut out of the span by its size (its root's
                    // payload has no delimiter of its own)
                    let derived = matches!(self.d.get(t), Some(Decl::Record { parent: Some(_), .. }));
                    if let (true, Some(n)) = (derived, self.ty_static(t)) {
                        let n = n as usize;
                        if b.len() < n {
                            return Err(DecErr::Length);
                        }
                        let (v, _) = self.decode(t, &b[..n], true, ev)?;
                        return Ok((v, n));
                    }
                    let (v, rest) = self.decode(t, b, false, ev)?;
                    Ok((v, b.len() - rest))
                }
                _ => panic!("unsupported element type {t}"),
            },
        }
    }

    fn dec_fields(&self, level: &Level, span_in: &[u8], ev: &mut Events) -> Result<(Map<String, Value>, usize, Option<Vec<u8>>), DecErr> {
        let fields = &level.fields;
        let mut span: &[u8] = span_in;
        let mut val = Map::new();
        let mut acc: Vec<(u32, &FF)> = vec![];
        let mut sh = 0u32;
        let mut sizes: BTreeMap<&str, u64> = BTreeMap::new();
        let mut counts: BTreeMap<&str, u64> = BTreeMap::new();
        let mut esz: BTreeMap<&str, u64> = BTreeMap::new();
        let mut flagv: BTreeMap<&str, u64> = BTreeMap::new();
        let mut payload: Option<Vec<u8>> = None;
        for (idx, f) in fields.iter().enumerate() {
            if let Some(w) = f.bits() {
                acc.push((sh, f));
                sh += w;
                if sh % 8 != 0 {
                    continue;
                }
                let n = (sh / 8) as usize;
                if span.len() < n {
                    ev.insert("truncated@bitgroup".into());
                    return Err(DecErr::Length);
                }
                let x = self.bytes_int(&span[..n]);
                span = &span[n..];
                for (o, g) in acc.drain(..) {
                    let w = g.bits().unwrap();
                    let v = (x >> o) & mask(w);
                    match &g.k {
                        FK::Scalar { id, .. } => {
                            val.insert(id.clone(), json!(v));
                        }
                        FK::Flag { id, .. } => {
                            flagv.insert(id, v);
                        }
                        FK::Enum { id, ty, .. } => {
                            if !self.enum_valid(ty, v) {
                                ev.insert("enum-invalid@bitfield".into());
                                return Err(DecErr::EnumValue);
                            }
                            val.insert(id.clone(), json!(v));
                        }
                        FK::Fixed { v: e, .. } => {
                            if v != *e {
                                ev.insert("fixed-mismatch".into());
                                return Err(DecErr::FixedValue);
                            }
                        }
                        FK::Reserved { .. } => {
                            if v != 0 {
                                ev.insert("reserved-nonzero".into());
                            }
                        }
                        FK::Size { target, .. } => {
                            sizes.insert(target, v);
                        }
                        FK::Count { target, .. } => {
                            counts.insert(target, v);
                        }
                        FK::ElemSize { target, .. } => {
                            esz.insert(target, v);
                        }
                        _ => unreachable!(),
                    }
                }
                sh = 0;
                continue;
            }
            assert!(sh == 0, "non bit-field at bit offset in {}", level.id);
            if let Some((flag, cv)) = &f.cond {
                let id = f.id().unwrap();
                if flagv.get(flag.as_str()).copied() != Some(*cv) {
                    val.insert(id.into(), Value::Null);
                    continue;
                }
                match &f.k {
                    FK::Scalar { w, .. } => {
                        let n = *w as usize / 8;
                        if span.len() < n {
                            ev.insert("truncated@optional".into());
                            return Err(DecErr::Length);
                        }
                        val.insert(id.into(), json!(self.bytes_int(&span[..n])));
                        span = &span[n..];
                    }
                    FK::Enum { ty, w, .. } => {
                        let n = *w as usize / 8;
                        if span.len() < n {
                            ev.insert("truncated@optional".into());
                            return Err(DecErr::Length);
                        }
                        let v = self.bytes_int(&span[..n]);
                        span = &span[n..];
                        if !self.enum_valid(ty, v) {
                            ev.insert("enum-invalid@optional".into());
                            return Err(DecErr::EnumValue);
                        }
                        val.insert(id.into(), json!(v));
                    }
                    FK::Struct { ty, .. } => {
                        let (v, used) = self.dec_elem(&Elem::Ty(ty.clone()), span, ev)?;
                        span = &span[used..];
                        val.insert(id.into(), v);
                    }
                    _ => panic!("unsupported optional field"),
                }
                continue;
            }
            match &f.k {
                FK::Array { id, elem, count, modifier, padding } => {
                    let fid = id.as_str();
                    let mut after: Option<&[u8]> = None;
                    let mut cur: &[u8] = span;
                    if let Some(p) = padding {
                        let p = *p as usize;
                        if span.len() < p {
                            ev.insert("truncated@padding".into());
                            return Err(DecErr::Length);
                        }
                        cur = &span[..p];
                        after = Some(&span[p..]);
                    }
                    let ew = self.elem_static(elem);
                    let mut out: Vec<Value> = vec![];
                    if let Some(e) = esz.get(fid).copied() {
                        if e == 0 {
                            ev.insert("elemsize=0".into());
                        }
                        let n: u64;
                        if let Some(c) = count {
                            n = *c;
                        } else if let Some(c) = counts.get(fid) {
                            n = *c;
                        } else {
                            let tot = match sizes.get(fid) {
                                Some(s) => {
                                    if *s < *modifier {
                                        ev.insert("size<modifier".into());
                                        return Err(DecErr::Length);
                                    }
                                    s - modifier
                                }
                                None => cur.len() as u64,
                            };
                            if (cur.len() as u64) < tot {
                                return Err(DecErr::Length);
                            }
                            if e == 0 {
                                if tot != 0 {
                                    return Err(DecErr::ArraySize);
                                }
                                n = 0;
                            } else {
                                if tot % e != 0 {
                                    return Err(DecErr::ArraySize);
                                }
                                n = tot / e;
                            }
                        }
                        let need = (n as u128) * (e as u128);
                        if need >= (1u128 << 64) {
                            ev.insert("count*width>=2^64".into());
                        }
                        if need >= (1u128 << 32) {
                            ev.insert("count*width>=2^32".into());
                        }
                        if (cur.len() as u128) < need {
                            ev.insert("truncated@array".into());
                            return Err(DecErr::Length);
                        }
                        let e = e as usize;
                        for i in 0..n as usize {
                            let chunk = &cur[i * e..(i + 1) * e];
                            let (v, used) = self.dec_elem(elem, chunk, ev).map_err(|e| { ev.insert("fault@array-elem".into()); e })?;
                            if used != chunk.len() {
                                ev.insert("trailing-in-element".into());
                                return Err(DecErr::TrailingBytesInArray);
                            }
                            out.push(v);
                        }
                        cur = &cur[n as usize * e..];
                    } else if count.is_some() || counts.contains_key(fid) {
                        let n = count.unwrap_or_else(|| counts[fid]);
                        if let Some(ew) = ew {
                            let need = (n as u128) * (ew as u128);
                            if need >= (1u128 << 64) {
                                ev.insert("count*width>=2^64".into());
                            }
                            if need >= (1u128 << 32) {
                                ev.insert("count*width>=2^32".into());
                            }
                            if (cur.len() as u128) < need {
                                ev.insert("truncated@array".into());
                                return Err(DecErr::Length);
                            }
                        }
                        for _ in 0..n {
                            let (v, used) = self.dec_elem(elem, cur, ev).map_err(|e| { ev.insert("fault@array-elem".into()); e })?;
                            cur = &cur[used..];
                            out.push(v);
                        }
                    } else {
                        let mut sub: &[u8];
                        if let Some(s) = sizes.get(fid) {
                            if *s < *modifier {
                                ev.insert("size<modifier".into());
                                return Err(DecErr::Length);
                            }
                            let tot = s - modifier;
                            if (cur.len() as u64) < tot {
                                ev.insert("truncated@array".into());
                                return Err(DecErr::Length);
                            }
                            sub = &cur[..tot as usize];
                            cur = &cur[tot as usize..];
                        } else {
                            sub = cur;
                            cur = &cur[cur.len()..];
                        }
                        if let Some(ew) = ew {
                            if ew > 0 && sub.len() as u64 % ew != 0 {
                                ev.insert("size-not-multiple".into());
                                return Err(DecErr::ArraySize);
                            }
                            if ew == 0 && !sub.is_empty() {
                                ev.insert("zero-width-elem".into());
                                return Err(DecErr::ArraySize);
                            }
                        }
                        while !sub.is_empty() {
                            let (v, used) = self.dec_elem(elem, sub, ev).map_err(|e| { ev.insert("fault@array-elem".into()); e })?;
                            if used == 0 {
                                ev.insert("zero-progress-elem".into());
                                return Err(DecErr::ArraySize);
                            }
                            sub = &sub[used..];
                            out.push(v);
                        }
                    }
                    val.insert(id.clone(), Value::Array(out));
                    span = match after {
                        Some(a) => a,
                        None => cur,
                    };
                }
                FK::Struct { id, ty } | FK::Custom { id, ty, .. } => {
                    let (v, used) = self.dec_elem(&Elem::Ty(ty.clone()), span, ev)?;
                    span = &span[used..];
                    val.insert(id.clone(), v);
                }
                FK::Payload { modifier, body } => {
                    let key = if *body { "_body_" } else { "_payload_" };
                    if let Some(s) = sizes.get(key) {
                        if *s < *modifier {
                            ev.insert("size<modifier".into());
                            return Err(DecErr::Length);
                        }
                        let n = (s - modifier) as usize;
                        if span.len() < n {
                            ev.insert("truncated@payload".into());
                            return Err(DecErr::Length);
                        }
                        payload = Some(span[..n].to_vec());
                        span = &span[n..];
                    } else {
                        let mut tail = 0u64;
                        for g in &fields[idx + 1..] {
                            tail += self.field_static_bits(g).unwrap_or(0);
                        }
                        let tail = (tail / 8) as usize;
                        if span.len() < tail {
                            ev.insert("truncated@payload-tail".into());
                            return Err(DecErr::Length);
                        }
                        payload = Some(span[..span.len() - tail].to_vec());
                        span = &span[span.len() - tail..];
                    }
                }
                FK::Padding { .. } | FK::Checksum { .. } => {}
                _ => panic!("unexpected field kind in decode"),
            }
        }
        assert!(sh == 0);
        Ok((val, span.len(), payload))
    }
}


//! Known findings: declarative rules `property x op x outcome x trigger` read from
//! /verif/known_findings.txt (never written at run time).
use std::collections::BTreeSet;

#[derive(Clone, Debug, Default)]
pub struct Finding {
    pub property: String,
    pub id: String,
    pub op: String,
    pub outcome: String,
    pub trigger: Vec<String>,
    pub replay: String,
    pub what: String,
}

#[derive(Clone, Debug, Default)]
pub struct Kf {
    pub findings: Vec<Finding>,
    pub fixed: Vec<String>,
}

fn parse_kv(line: &str) -> Vec<(String, String)> {
    let mut out = vec![];
    let b: Vec<char> = line.chars().collect();
    let mut i = 0;
    while i < b.len() {
        while i < b.len() && b[i].is_whitespace() {
            i += 1;
        }
        let ks = i;
        while i < b.len() && b[i] != '=' && !b[i].is_whitespace() {
            i += 1;
        }
        if i >= b.len() || b[i] != '=' {
            break;
        }
        let key: String = b[ks..i].iter().collect();
        i += 1;
        let val: String;
        if i < b.len() && b[i] == '"' {
            i += 1;
            let vs = i;
            while i < b.len() && b[i] != '"' {
                i += 1;
            }
            val = b[vs..i].iter().collect();
            i += 1;
        } else {
            let vs = i;
            while i < b.len() && !b[i].is_whitespace() {
                i += 1;
            }
            val = b[vs..i].iter().collect();
        }
        out.push((key, val));
    }
    out
}

impl Kf {
    pub fn parse(text: &str) -> Kf {
        let mut kf = Kf::default();
        for line in text.lines() {
            let line = line.trim();
            if let Some(rest) = line.strip_prefix("finding:") {
                let mut f = Finding::default();
                for (k, v) in parse_kv(rest) {
                    match k.as_str() {
                        "property" => f.property = v,
                        "id" => f.id = v,
                        "op" => f.op = v,
                        "outcome" => f.outcome = v,
                        "trigger" => f.trigger = v.split('&').map(|s| s.trim().to_string()).filter(|s| !s.is_empty()).collect(),
                        "replay" => f.replay = v,
                        "what" => f.what = v,
                        _ => {}
                    }
                }
                kf.findings.push(f);
            } else if let Some(rest) = line.strip_prefix("fixed:") {
                kf.fixed.push(rest.trim().to_string());
            }
        }
        kf
    }
    pub fn load(path: &str) -> Kf {
        match std::fs::read_to_string(path) {
            Ok(t) => Kf::parse(&t),
            Err(_) => Kf::default(),
        }
    }
    /// A failure (property, op, outcome) observed on a case carrying `tags`: the listed finding it is, if any.
    pub fn matches(&self, property: &str, op: &str, outcome: &str, tags: &BTreeSet<String>) -> Option<&Finding> {
        self.findings.iter().find(|f| f.property == property && (f.op == "*" || f.op == op) && (if let Some(sub) = f.outcome.strip_prefix('~') { outcome.contains(sub) } else { outcome.starts_with(&f.outcome) }) && f.trigger.iter().all(|t| tags.contains(t)))
    }
    pub fn for_property(&self, property: &str) -> Vec<&Finding> {
        self.findings.iter().filter(|f| f.property == property).collect()
    }
}

//! Value generator (4.3), single-fault out-of-range values (C05) and byte-input
//! generator (4.4).  Everything is drawn from a choice stream.
use crate::choice::Src;
use crate::model::*;
use crate::refcodec::*;
use serde_json::{json, Map, Value};
use std::collections::BTreeMap;

fn maxv(w: u32) -> u64 {
    if w >= 64 {
        u64::MAX
    } else {
        (1u64 << w) - 1
    }
}

pub struct VGen<'a, 'b> {
    pub r: &'a Ref<'b>,
    /// small mode: minimal arrays / payloads (used when a first attempt does not fit its size fields)
    pub small: bool,
}

impl<'a, 'b> VGen<'a, 'b> {
    pub fn enum_value(&self, ty: &str, s: &mut Src) -> u64 {
        let (w, tags) = self.r.d.enum_tags(ty).expect("enum");
        let max = maxv(w);
        let mut cands: Vec<u64> = vec![];
        let mut open = false;
        for t in tags {
            match t {
                Tag::Value { v, .. } => cands.push(*v),
                Tag::Range { lo, hi, tags, .. } => {
                    cands.push(*lo);
                    cands.push(*hi);
                    cands.push(lo + (hi - lo) / 2);
                    cands.push(s.range(*lo, *hi));
                    for (_, v) in tags {
                        cands.push(*v);
                    }
                }
                Tag::Other { .. } => open = true,
            }
        }
        if open {
            let base = cands.clone();
            for v in base {
                if v > 0 {
                    cands.push(v - 1);
                }
                if v < max {
                    cands.push(v + 1);
                }
            }
            cands.push(0);
            cands.push(max);
            cands.push(s.range(0, max));
        }
        if cands.is_empty() {
            return 0;
        }
        *s.pick(&cands)
    }

    fn elem_value(&self, e: &Elem, s: &mut Src, depth: usize) -> Value {
        match e {
            Elem::Bits(w) => json!(s.bits(*w)),
            Elem::Ty(t) => match self.r.d.ty_kind(t) {
                Some(TyKind::Enum) => json!(self.enum_value(t, s)),
                Some(TyKind::Custom(Some(w))) => json!(s.bits(w)),
                Some(TyKind::Struct) => self.value(t, s, depth + 1),
                _ => Value::Null,
            },
        }
    }

    fn elem_size(&self, e: &Elem, v: &Value) -> Option<usize> {
        let mut out = vec![];
        let mut lay = vec![];
        let mut ev = Events::new();
        self.r.enc_elem_pub(e, v, &mut out, &mut lay, &mut ev).ok()?;
        Some(out.len())
    }

    pub fn value(&self, ty: &str, s: &mut Src, depth: usize) -> Value {
        let fl = self.r.flat(ty);
        let mut obj = Map::new();
        for level in &fl.levels {
            // flag values
            let mut flagv: BTreeMap<&str, u64> = BTreeMap::new();
            for f in &level.fields {
                if let FK::Flag { id, .. } = &f.k {
                    flagv.insert(id, s.below(2) as u64);
                }
            }
            let len_of = |target: &str| -> Option<(&'static str, u32)> {
                for f in &level.fields {
                    match &f.k {
                        FK::Size { target: t, w } if t == target => return Some(("size", *w)),
                        FK::Count { target: t, w } if t == target => return Some(("count", *w)),
                        _ => {}
                    }
                }
                None
            };
            for f in &level.fields {
                let Some(id) = f.id() else { continue };
                if !f.is_data() || fl.cons.contains_key(id) {
                    continue;
                }
                if let Some((flag, cv)) = &f.cond {
                    if flagv.get(flag.as_str()).copied().unwrap_or(0) != *cv {
                        obj.insert(id.into(), Value::Null);
                        continue;
                    }
                }
                let v = match &f.k {
                    FK::Scalar { w, .. } => json!(s.bits(*w)),
                    FK::Enum { ty, .. } => json!(self.enum_value(ty, s)),
                    FK::Struct { ty, .. } => self.value(ty, s, depth + 1),
                    FK::Custom { w, .. } => json!(s.bits(w.unwrap_or(8))),
                    FK::Array { elem, count, modifier, padding, .. } => {
                        let es = self.r.elem_static(elem);
                        let has_esz = level.fields.iter().any(|g| matches!(&g.k, FK::ElemSize { target, .. } if target == id));
                        let n: u64 = if let Some(c) = count {
                            *c
                        } else {
                            let mut cap: u64 = if depth > 1 { 3 } else { 12 };
                            match len_of(id) {
                                Some(("count", w)) => cap = cap.min(maxv(w)),
                                Some(("size", w)) => {
                                    let bytes = maxv(w).saturating_sub(*modifier);
                                    cap = cap.min(bytes / es.unwrap_or(2).max(1));
                                }
                                _ => {}
                            }
                            if let Some(p) = padding {
                                cap = cap.min(p / es.unwrap_or(2).max(1));
                            }
                            if self.small {
                                cap.min(s.below(2) as u64)
                            } else {
                                match s.below(6) {
                                    0 => 0,
                                    1 => 1.min(cap),
                                    2 => cap,
                                    _ => s.range(0, cap),
                                }
                            }
                        };
                        let mut items: Vec<Value> = vec![];
                        let mut first_size = None;
                        for i in 0..n {
                            let mut v = self.elem_value(elem, s, depth + 1);
                            if has_esz {
                                if i == 0 {
                                    first_size = self.elem_size(elem, &v);
                                } else if self.elem_size(elem, &v) != first_size {
                                    // second try, then fall back to a copy of element 0
                                    v = self.elem_value(elem, s, depth + 1);
                                    if self.elem_size(elem, &v) != first_size {
                                        v = items[0].clone();
                                    }
                                }
                            }
                            items.push(v);
                        }
                        Value::Array(items)
                    }
                    _ => continue,
                };
                obj.insert(id.into(), v);
            }
        }
        if fl.has_payload() {
            let n = if self.small {
                0
            } else {
                match s.below(5) {
                    0 => 0,
                    1 => 1,
                    _ => s.below(10),
                }
            };
            let p: Vec<Value> = (0..n).map(|_| json!(s.below(256))).collect();
            obj.insert("payload".into(), Value::Array(p));
        }
        Value::Object(obj)
    }
}

/// An in-range value of `ty` together with its reference encoding.  Returns None when
/// no attempt fitted (e.g. a child that can never fit its parent's payload size field).
pub fn gen_encodable(r: &Ref, ty: &str, s: &mut Src) -> Option<(Value, Encoded)> {
    for attempt in 0..3 {
        let g = VGen { r, small: attempt > 0 };
        let v = g.value(ty, s, 0);
        match r.encode(ty, &v) {
            Ok(e) => return Some((v, e)),
            Err(EncErr::BadValue(m)) => panic!("value generator produced an ill-shaped value for {ty}: {m}\n{v}"),
            Err(_) => continue,
        }
    }
    None
}

// ------------------------------------------------------------------ single-fault values (C05)

#[derive(Clone, Debug)]
pub struct Faulty {
    pub value: Value,
    pub expect: EncErr,
    pub label: String,
}

/// Backing integer width of a generated Rust scalar of `w` bits.
pub fn backing(w: u32) -> u32 {
    match w {
        0..=8 => 8,
        9..=16 => 16,
        17..=32 => 32,
        _ => 64,
    }
}

/// Inject exactly one fault into an in-range value `v` of `ty`.  The fault is confirmed
/// with the reference encoder (it must report exactly `expect`), otherwise None.
pub fn gen_faulty(r: &Ref, ty: &str, v: &Value, s: &mut Src) -> Option<Faulty> {
    let fl = r.flat(ty);
    let mut cands: Vec<Faulty> = vec![];
    let obj = v.as_object()?;
    for level in &fl.levels {
        let len_field = |target: &str| -> (Option<u32>, Option<u32>) {
            let mut sz = None;
            let mut ct = None;
            for f in &level.fields {
                match &f.k {
                    FK::Size { target: t, w } if t == target => sz = Some(*w),
                    FK::Count { target: t, w } if t == target => ct = Some(*w),
                    _ => {}
                }
            }
            (sz, ct)
        };
        // flags shared by two optionals with equal / opposite condition values
        let mut by_flag: BTreeMap<&str, Vec<(&str, u64, &FF)>> = BTreeMap::new();
        for f in &level.fields {
            if let (Some((flag, cv)), Some(id)) = (&f.cond, f.id()) {
                by_flag.entry(flag).or_default().push((id, *cv, f));
            }
        }
        for (_, opts) in &by_flag {
            if opts.len() >= 2 {
                // make presence of the first two contradictory
                let (a, ca, fa) = opts[0];
                let (b, cb, fb) = opts[1];
                let mut o = obj.clone();
                let g = VGen { r, small: true };
                let mk = |f: &FF, s: &mut Src| -> Value {
                    match &f.k {
                        FK::Scalar { w, .. } => json!(s.bits(*w)),
                        FK::Enum { ty, .. } => json!(g.enum_value(ty, s)),
                        FK::Struct { ty, .. } => g.value(ty, s, 1),
                        _ => Value::Null,
                    }
                };
                // flag value implied by a: present -> ca.  For b choose presence implying the other value.
                o.insert(a.into(), mk(fa, s));
                if ca == cb {
                    o.insert(b.into(), Value::Null);
                } else {
                    o.insert(b.into(), mk(fb, s));
                }
                cands.push(Faulty { value: Value::Object(o), expect: EncErr::InconsistentCondition, label: "flag.inconsistent".into() });
            }
        }
        for f in &level.fields {
            let Some(id) = f.id() else { continue };
            if !f.is_data() || fl.cons.contains_key(id) {
                continue;
            }
            let cur = obj.get(id);
            match &f.k {
                FK::Scalar { w, .. } if backing(*w) > *w => {
                    if cur.map(|c| c.is_null()).unwrap_or(true) {
                        continue;
                    }
                    for (x, l) in [(1u64 << *w, "2^w"), (maxv(backing(*w)), "backing-max")] {
                        let mut o = obj.clone();
                        o.insert(id.into(), json!(x));
                        cands.push(Faulty { value: Value::Object(o), expect: EncErr::ScalarRange, label: format!("scalar.{}.{l}", if f.cond.is_some() { "opt" } else { "plain" }) });
                    }
                }
                FK::Array { elem, count, modifier, padding, .. } => {
                    let es = r.elem_static(elem);
                    let g = VGen { r, small: true };
                    let (sz, ct) = len_field(id);
                    let items = cur.and_then(|c| c.as_array()).cloned().unwrap_or_default();
                    // element out of range
                    if let Elem::Bits(w) = elem {
                        if backing(*w) > *w && !items.is_empty() {
                            let mut it = items.clone();
                            let k = s.below(it.len());
                            it[k] = json!(1u64 << *w);
                            let mut o = obj.clone();
                            o.insert(id.into(), Value::Array(it));
                            cands.push(Faulty { value: Value::Object(o), expect: EncErr::ScalarRange, label: "array.elem.2^w".into() });
                        }
                    }
                    if count.is_some() {
                        continue;
                    }
                    let mk_n = |n: u64, s: &mut Src| -> Value { Value::Array((0..n).map(|_| g.elem_value(elem, s, 2)).collect()) };
                    if let (Some(w), Some(e)) = (sz, es) {
                        if w <= 12 && e > 0 {
                            let n = (maxv(w).saturating_sub(*modifier)) / e + 1;
                            if padding.map(|p| n * e <= p).unwrap_or(true) {
                                let mut o = obj.clone();
                                o.insert(id.into(), mk_n(n, s));
                                cands.push(Faulty { value: Value::Object(o), expect: EncErr::SizeOverflow, label: "array.size+1".into() });
                            }
                        }
                    }
                    if let Some(w) = ct {
                        if w <= 10 {
                            let n = maxv(w) + 1;
                            let fits_pad = match (padding, es) {
                                (Some(p), Some(e)) => n * e <= *p,
                                (Some(_), None) => false,
                                _ => true,
                            };
                            if fits_pad {
                                let mut o = obj.clone();
                                o.insert(id.into(), mk_n(n, s));
                                cands.push(Faulty { value: Value::Object(o), expect: EncErr::CountOverflow, label: "array.count+1".into() });
                            }
                        }
                    }
                    if let (Some(p), Some(e)) = (padding, es) {
                        if e > 0 && *p <= 4096 {
                            let n = p / e + 1;
                            let fits = sz.map(|w| n * e + modifier <= maxv(w)).unwrap_or(true) && ct.map(|w| n <= maxv(w)).unwrap_or(true);
                            if fits {
                                let mut o = obj.clone();
                                o.insert(id.into(), mk_n(n, s));
                                cands.push(Faulty { value: Value::Object(o), expect: EncErr::PaddingOverflow, label: "array.padding+1".into() });
                            }
                        }
                    }
                    let has_esz = level.fields.iter().any(|g| matches!(&g.k, FK::ElemSize { target, .. } if target == id));
                    if has_esz && es.is_none() {
                        // two elements of different encoded size
                        let big = VGen { r, small: false };
                        let a = g.elem_value(elem, s, 2);
                        for _ in 0..4 {
                            let b = big.elem_value(elem, s, 2);
                            if g.elem_size(elem, &a) != g.elem_size(elem, &b) && g.elem_size(elem, &b).is_some() {
                                let mut o = obj.clone();
                                o.insert(id.into(), json!([a, b]));
                                cands.push(Faulty { value: Value::Object(o), expect: EncErr::ElementSizeMismatch, label: "array.elemsize-mismatch".into() });
                                break;
                            }
                        }
                    }
                }
                _ => {}
            }
        }
        // payload larger than its size field (last level only carries raw payload)
        if std::ptr::eq(level, fl.last()) {
            for f in &level.fields {
                if let FK::Payload { modifier, body } = &f.k {
                    let key = if *body { "_body_" } else { "_payload_" };
                    let (sz, _) = len_field(key);
                    if let Some(w) = sz {
                        if w <= 12 {
                            let n = maxv(w).saturating_sub(*modifier) + 1;
                            let mut o = obj.clone();
                            o.insert("payload".into(), Value::Array((0..n).map(|i| json!(i % 251)).collect()));
                            cands.push(Faulty { value: Value::Object(o), expect: EncErr::SizeOverflow, label: "payload.size+1".into() });
                        }
                    }
                }
            }
        }
    }
    if cands.is_empty() {
        return None;
    }
    // try a few candidates: the reference must report exactly the expected kind
    for _ in 0..3 {
        let k = s.below(cands.len());
        let c = &cands[k];
        match r.encode(ty, &c.value) {
            Err(e) if e == c.expect => return Some(c.clone()),
            _ => {}
        }
    }
    None
}

// ------------------------------------------------------------------ byte inputs (4.4)

#[derive(Clone, Debug)]
pub struct ByteInput {
    pub bytes: Vec<u8>,
    /// class label, e.g. `valid`, `prefix`, `ext`, `mut:Size:max`, `flip`, `random`
    pub label: String,
    /// single-fault mutant with a unique possible complaint (C04 clause c)
    pub single_fault: bool,
}

fn get_bits(bytes: &[u8], big: bool, off: usize, len: usize) -> u64 {
    let mut v = 0u64;
    if big {
        for i in 0..len {
            v = (v << 8) | bytes[off + i] as u64;
        }
    } else {
        for i in (0..len).rev() {
            v = (v << 8) | bytes[off + i] as u64;
        }
    }
    v
}

fn put_bits(bytes: &mut [u8], big: bool, off: usize, len: usize, v: u64) {
    for i in 0..len {
        let b = (v >> (8 * i)) as u8;
        if big {
            bytes[off + len - 1 - i] = b;
        } else {
            bytes[off + i] = b;
        }
    }
}

/// `types`: candidate source types (the target type and its descendants): the encoding of a
/// value of any of them is a meaningful input for the target's decoder.
pub fn gen_bytes(r: &Ref, types: &[String], static_hint: usize, s: &mut Src) -> ByteInput {
    r.es_padded.set(false);
    let mut b = gen_bytes_inner(r, types, static_hint, s);
    if r.es_padded.get() {
        // not a single-fault input any more
        b.single_fault = false;
        b.label = format!("espad+{}", b.label);
    }
    b
}

fn gen_bytes_inner(r: &Ref, types: &[String], static_hint: usize, s: &mut Src) -> ByteInput {
    let class = s.weighted(&[10, 18, 8, 34, 6, 14, 10]);
    if class == 5 {
        let n = match s.below(4) {
            0 => static_hint,
            1 => s.below(static_hint + 3),
            2 => static_hint + s.below(9),
            _ => s.below(24),
        };
        let fill = s.below(4);
        let bytes: Vec<u8> = (0..n)
            .map(|_| match fill {
                0 => 0,
                1 => 0xff,
                _ => s.below(256) as u8,
            })
            .collect();
        return ByteInput { bytes, label: "random".into(), single_fault: false };
    }
    let ty = s.pick(types).clone();
    // one valid encoding in eight of a type reaching an element-size array gets elements shorter than their
    // window (window and element-size field grown by 1..3 octets)
    let padded = s.below(8) == 0;
    if padded {
        r.es_pad.set(1 + s.below(3));
    }
    let got = gen_encodable(r, &ty, s);
    r.es_pad.set(0);
    let Some((_, enc)) = got else {
        return ByteInput { bytes: vec![], label: "random".into(), single_fault: false };
    };
    let e = enc.bytes;
    let big = r.d.big;
    match class {
        0 => ByteInput { bytes: e, label: "valid".into(), single_fault: false },
        1 => {
            if e.is_empty() {
                return ByteInput { bytes: e, label: "valid".into(), single_fault: false };
            }
            let cut = match s.below(3) {
                0 => e.len() - 1,
                _ => s.below(e.len()),
            };
            ByteInput { bytes: e[..cut].to_vec(), label: "prefix".into(), single_fault: true }
        }
        2 => {
            let mut b = e;
            let n = 1 + s.below(8);
            for _ in 0..n {
                b.push(s.below(256) as u8);
            }
            ByteInput { bytes: b, label: "ext".into(), single_fault: true }
        }
        3 => {
            // targeted mutant through the layout map
            let groups: Vec<&Chunk> = enc.layout.iter().filter(|c| c.kind == ChunkKind::BitGroup).collect();
            if groups.is_empty() {
                return ByteInput { bytes: e, label: "valid".into(), single_fault: false };
            }
            // prefer length-ish fields
            let mut pool: Vec<(&Chunk, &BitF)> = vec![];
            for c in &groups {
                for b in &c.bits {
                    let wgt = match b.kind {
                        BitKind::Size | BitKind::Count | BitKind::ElemSize => 4,
                        BitKind::Flag | BitKind::Enum | BitKind::Fixed => 2,
                        _ => 1,
                    };
                    for _ in 0..wgt {
                        pool.push((c, b));
                    }
                }
            }
            let (c, bf) = *s.pick(&pool);
            let mut b = e;
            let x = get_bits(&b, big, c.off, c.len);
            let m = maxv(bf.w);
            let cur = (x >> bf.off) & m;
            let (nv, how) = match s.below(9) {
                0 => (0, "0"),
                1 => (1 & m, "1"),
                2 => (m, "max"),
                3 => (m.saturating_sub(1), "max-1"),
                4 => ((1u64 << s.below(bf.w as usize)) & m, "2^k"),
                5 => (cur.wrapping_add(1) & m, "+1"),
                6 => (cur.wrapping_sub(1) & m, "-1"),
                7 => (m ^ (m >> 1), "msb"),
                _ => (s.range(0, m), "rand"),
            };
            let cleared = if bf.w >= 64 { 0 } else { x & !(m << bf.off) };
            put_bits(&mut b, big, c.off, c.len, cleared | (nv << bf.off));
            let single = nv != cur && matches!(bf.kind, BitKind::Fixed | BitKind::Enum);
            ByteInput { bytes: b, label: format!("mut:{:?}:{how}", bf.kind), single_fault: single }
        }
        4 => {
            let mut b = e;
            if b.is_empty() {
                return ByteInput { bytes: b, label: "valid".into(), single_fault: false };
            }
            let n = 1 + s.below(3);
            for _ in 0..n {
                let i = s.below(b.len());
                b[i] ^= 1 << s.below(8);
            }
            ByteInput { bytes: b, label: "flip".into(), single_fault: false }
        }
        _ => {
            // overwrite a whole non-bit-group chunk (enum / scalar element, optional) with boundary values
            let others: Vec<&Chunk> = enc.layout.iter().filter(|c| c.kind != ChunkKind::BitGroup && c.len > 0).collect();
            if others.is_empty() {
                return ByteInput { bytes: e, label: "valid".into(), single_fault: false };
            }
            let c = *s.pick(&others);
            let mut b = e;
            let fill = match s.below(3) {
                0 => 0u8,
                1 => 0xff,
                _ => s.below(256) as u8,
            };
            for i in 0..c.len.min(8) {
                b[c.off + i] = fill;
            }
            ByteInput { bytes: b, label: format!("chunk:{:?}", c.kind), single_fault: false }
        }
    }
}

//! Description model (deliberately not pdl's AST) and the flattened view the
//! reference model, the value generator and the harness emitters work on.
use serde::{Deserialize, Serialize};
use std::collections::BTreeMap;

#[derive(Clone, Debug, Serialize, Deserialize, PartialEq, Eq)]
pub struct Desc {
    pub big: bool,
    pub decls: Vec<Decl>,
}

#[derive(Clone, Debug, Serialize, Deserialize, PartialEq, Eq)]
pub enum Tag {
    Value { id: String, v: u64 },
    Range { id: String, lo: u64, hi: u64, tags: Vec<(String, u64)> },
    Other { id: String },
}

#[derive(Clone, Debug, Serialize, Deserialize, PartialEq, Eq)]
pub enum Cv {
    Int(u64),
    Tag(String),
}

#[derive(Clone, Debug, Serialize, Deserialize, PartialEq, Eq)]
pub struct Cons {
    pub id: String,
    pub v: Cv,
}

#[derive(Clone, Debug, Serialize, Deserialize, PartialEq, Eq)]
pub enum Elem {
    Bits(u32),
    Ty(String),
}

#[derive(Clone, Debug, Serialize, Deserialize, PartialEq, Eq)]
pub enum FieldDesc {
    Scalar { id: String, w: u32 },
    Typedef { id: String, ty: String },
    Array { id: String, elem: Elem, count: Option<u64>, modifier: Option<u64> },
    Size { target: String, w: u32 },
    Count { target: String, w: u32 },
    ElemSize { target: String, w: u32 },
    Payload { modifier: Option<u64> },
    Body,
    FixedScalar { w: u32, v: u64 },
    FixedEnum { ty: String, tag: String },
    Reserved { w: u32 },
    Padding { n: u64 },
    Group { id: String, cons: Vec<Cons> },
    Checksum { id: String },
}

#[derive(Clone, Debug, Serialize, Deserialize, PartialEq, Eq)]
pub struct Field {
    pub d: FieldDesc,
    /// `if flag = value`
    pub cond: Option<(String, u64)>,
}

impl Field {
    pub fn new(d: FieldDesc) -> Field {
        Field { d, cond: None }
    }
    pub fn id(&self) -> Option<&str> {
        match &self.d {
            FieldDesc::Scalar { id, .. } | FieldDesc::Typedef { id, .. } | FieldDesc::Array { id, .. } => Some(id),
            FieldDesc::Payload { .. } => Some("_payload_"),
            FieldDesc::Body => Some("_body_"),
            _ => None,
        }
    }
}

#[derive(Clone, Debug, Serialize, Deserialize, PartialEq, Eq)]
pub enum Decl {
    Enum { id: String, width: u32, tags: Vec<Tag> },
    Custom { id: String, width: Option<u32> },
    Checksum { id: String, width: u32, function: String },
    Group { id: String, fields: Vec<Field> },
    /// packet or struct
    Record { id: String, packet: bool, parent: Option<String>, cons: Vec<Cons>, fields: Vec<Field> },
}

impl Decl {
    pub fn id(&self) -> &str {
        match self {
            Decl::Enum { id, .. } | Decl::Custom { id, .. } | Decl::Checksum { id, .. } | Decl::Group { id, .. } | Decl::Record { id, .. } => id,
        }
    }
    pub fn is_record(&self) -> bool {
        matches!(self, Decl::Record { .. })
    }
}

impl Desc {
    pub fn get(&self, id: &str) -> Option<&Decl> {
        self.decls.iter().find(|d| d.id() == id)
    }
    pub fn record_ids(&self) -> Vec<String> {
        self.decls.iter().filter(|d| d.is_record()).map(|d| d.id().to_string()).collect()
    }
    pub fn enum_ids(&self) -> Vec<String> {
        self.decls.iter().filter(|d| matches!(d, Decl::Enum { .. })).map(|d| d.id().to_string()).collect()
    }
    pub fn children_of(&self, id: &str) -> Vec<String> {
        self.decls
            .iter()
            .filter_map(|d| match d {
                Decl::Record { id: c, parent: Some(p), .. } if p == id => Some(c.clone()),
                _ => None,
            })
            .collect()
    }
    /// All strict descendants, pre-order.
    pub fn descendants_of(&self, id: &str) -> Vec<String> {
        let mut out = vec![];
        for c in self.children_of(id) {
            out.push(c.clone());
            out.extend(self.descendants_of(&c));
        }
        out
    }
    pub fn enum_tags(&self, id: &str) -> Option<(u32, &Vec<Tag>)> {
        match self.get(id)? {
            Decl::Enum { width, tags, .. } => Some((*width, tags)),
            _ => None,
        }
    }
    pub fn tag_value(&self, enum_id: &str, tag_id: &str) -> Option<u64> {
        let (_, tags) = self.enum_tags(enum_id)?;
        for t in tags {
            match t {
                Tag::Value { id, v } if id == tag_id => return Some(*v),
                Tag::Range { tags, .. } => {
                    for (i, v) in tags {
                        if i == tag_id {
                            return Some(*v);
                        }
                    }
                }
                _ => {}
            }
        }
        None
    }
}

// ---------------------------------------------------------------- enum model (R9)

#[derive(Clone, Debug, PartialEq, Eq)]
pub enum EnumClass {
    Named(String),
    InRange(String),
    Default(String),
    Invalid,
}

pub fn classify_enum(width: u32, tags: &[Tag], x: u64) -> EnumClass {
    if width < 64 && x >> width != 0 {
        return EnumClass::Invalid;
    }
    for t in tags {
        match t {
            Tag::Value { id, v } if *v == x => return EnumClass::Named(id.clone()),
            Tag::Range { tags, .. } => {
                for (i, v) in tags {
                    if *v == x {
                        return EnumClass::Named(i.clone());
                    }
                }
            }
            _ => {}
        }
    }
    for t in tags {
        if let Tag::Range { id, lo, hi, .. } = t {
            if *lo <= x && x <= *hi {
                return EnumClass::InRange(id.clone());
            }
        }
    }
    for t in tags {
        if let Tag::Other { id } = t {
            return EnumClass::Default(id.clone());
        }
    }
    EnumClass::Invalid
}

// ---------------------------------------------------------------- flattened view

#[derive(Clone, Debug, PartialEq, Eq)]
pub enum TyKind {
    Enum,
    Struct,
    Custom(Option<u32>),
    Checksum,
}

#[derive(Clone, Debug, PartialEq, Eq)]
pub enum FK {
    Scalar { id: String, w: u32 },
    /// 1-bit scalar used as the condition of optional fields (id, cond value)
    Flag { id: String, opts: Vec<(String, u64)> },
    Enum { id: String, ty: String, w: u32 },
    Fixed { w: u32, v: u64, enum_ty: Option<String> },
    Reserved { w: u32 },
    Size { target: String, w: u32 },
    Count { target: String, w: u32 },
    ElemSize { target: String, w: u32 },
    Struct { id: String, ty: String },
    Custom { id: String, ty: String, w: Option<u32> },
    Array { id: String, elem: Elem, count: Option<u64>, modifier: u64, padding: Option<u64> },
    Payload { modifier: u64, body: bool },
    /// padding field itself (its size is attached to the preceding array)
    Padding { n: u64 },
    Checksum { id: String },
}

#[derive(Clone, Debug, PartialEq, Eq)]
pub struct FF {
    pub k: FK,
    pub cond: Option<(String, u64)>,
}

impl FF {
    /// width if this is a bit-field (participates in bit-field groups)
    pub fn bits(&self) -> Option<u32> {
        if self.cond.is_some() {
            return None;
        }
        match &self.k {
            FK::Scalar { w, .. } | FK::Enum { w, .. } | FK::Fixed { w, .. } | FK::Reserved { w } | FK::Size { w, .. } | FK::Count { w, .. } | FK::ElemSize { w, .. } => Some(*w),
            FK::Flag { .. } => Some(1),
            _ => None,
        }
    }
    pub fn id(&self) -> Option<&str> {
        match &self.k {
            FK::Scalar { id, .. } | FK::Flag { id, .. } | FK::Enum { id, .. } | FK::Struct { id, .. } | FK::Custom { id, .. } | FK::Array { id, .. } => Some(id),
            _ => None,
        }
    }
    /// does this field carry a value in the JSON object
    pub fn is_data(&self) -> bool {
        matches!(self.k, FK::Scalar { .. } | FK::Enum { .. } | FK::Struct { .. } | FK::Custom { .. } | FK::Array { .. })
    }
}

#[derive(Clone, Debug)]
pub struct Level {
    pub id: String,
    pub fields: Vec<FF>,
    /// constraints declared by this level (on ancestors' fields)
    pub cons: Vec<Cons>,
}

#[derive(Clone, Debug)]
pub struct Flat {
    pub id: String,
    pub packet: bool,
    /// root ancestor first, the type itself last
    pub levels: Vec<Level>,
    /// accumulated constraints: field id -> numeric value
    pub cons: BTreeMap<String, u64>,
}

#[derive(Debug, Clone)]
pub struct ModelError(pub String);

fn me<T>(s: impl Into<String>) -> Result<T, ModelError> {
    Err(ModelError(s.into()))
}

impl Desc {
    pub fn ty_kind(&self, id: &str) -> Option<TyKind> {
        Some(match self.get(id)? {
            Decl::Enum { .. } => TyKind::Enum,
            Decl::Custom { width, .. } => TyKind::Custom(*width),
            Decl::Checksum { .. } => TyKind::Checksum,
            Decl::Record { .. } => TyKind::Struct,
            Decl::Group { .. } => return None,
        })
    }

    fn flatten_fields(&self, fields: &[Field], cons: &BTreeMap<String, Cv>, depth: usize, out: &mut Vec<FF>) -> Result<(), ModelError> {
        if depth > 16 {
            return me("group nesting too deep");
        }
        for f in fields {
            let k = match &f.d {
                FieldDesc::Group { id, cons: c } => {
                    let Some(Decl::Group { fields: gf, .. }) = self.get(id) else { return me(format!("no group {id}")) };
                    let mut m = cons.clone();
                    for x in c {
                        m.insert(x.id.clone(), x.v.clone());
                    }
                    self.flatten_fields(gf, &m, depth + 1, out)?;
                    continue;
                }
                FieldDesc::Scalar { id, w } => match cons.get(id) {
                    Some(Cv::Int(v)) => FK::Fixed { w: *w, v: *v, enum_ty: None },
                    Some(_) => return me("tag constraint on scalar"),
                    None => FK::Scalar { id: id.clone(), w: *w },
                },
                FieldDesc::Typedef { id, ty } => match self.ty_kind(ty) {
                    Some(TyKind::Enum) => {
                        let w = self.enum_tags(ty).unwrap().0;
                        match cons.get(id) {
                            Some(Cv::Tag(t)) => {
                                let Some(v) = self.tag_value(ty, t) else { return me("bad tag") };
                                FK::Fixed { w, v, enum_ty: Some(ty.clone()) }
                            }
                            Some(_) => return me("int constraint on enum"),
                            None => FK::Enum { id: id.clone(), ty: ty.clone(), w },
                        }
                    }
                    Some(TyKind::Struct) => FK::Struct { id: id.clone(), ty: ty.clone() },
                    Some(TyKind::Custom(w)) => FK::Custom { id: id.clone(), ty: ty.clone(), w },
                    Some(TyKind::Checksum) => FK::Custom { id: id.clone(), ty: ty.clone(), w: None },
                    None => return me(format!("no type {ty}")),
                },
                FieldDesc::Array { id, elem, count, modifier } => FK::Array { id: id.clone(), elem: elem.clone(), count: *count, modifier: modifier.unwrap_or(0), padding: None },
                FieldDesc::Size { target, w } => FK::Size { target: target.clone(), w: *w },
                FieldDesc::Count { target, w } => FK::Count { target: target.clone(), w: *w },
                FieldDesc::ElemSize { target, w } => FK::ElemSize { target: target.clone(), w: *w },
                FieldDesc::Payload { modifier } => FK::Payload { modifier: modifier.unwrap_or(0), body: false },
                FieldDesc::Body => FK::Payload { modifier: 0, body: true },
                FieldDesc::FixedScalar { w, v } => FK::Fixed { w: *w, v: *v, enum_ty: None },
                FieldDesc::FixedEnum { ty, tag } => {
                    let Some((w, _)) = self.enum_tags(ty) else { return me("fixed enum type") };
                    let Some(v) = self.tag_value(ty, tag) else { return me("fixed enum tag") };
                    FK::Fixed { w, v, enum_ty: Some(ty.clone()) }
                }
                FieldDesc::Reserved { w } => FK::Reserved { w: *w },
                FieldDesc::Padding { n } => FK::Padding { n: *n },
                FieldDesc::Checksum { id } => FK::Checksum { id: id.clone() },
            };
            out.push(FF { k, cond: f.cond.clone() });
        }
        Ok(())
    }

    fn flat_level(&self, id: &str) -> Result<Level, ModelError> {
        let Some(Decl::Record { fields, cons, .. }) = self.get(id) else { return me(format!("no record {id}")) };
        let mut out = vec![];
        self.flatten_fields(fields, &BTreeMap::new(), 0, &mut out)?;
        // attach paddings, link flags
        for i in 0..out.len() {
            if let FK::Padding { n } = out[i].k {
                if i > 0 {
                    if let FK::Array { padding, .. } = &mut out[i - 1].k {
                        *padding = Some(n);
                    }
                }
            }
        }
        let mut flags: BTreeMap<String, Vec<(String, u64)>> = BTreeMap::new();
        for f in &out {
            if let (Some((flag, v)), Some(id)) = (&f.cond, f.id()) {
                flags.entry(flag.clone()).or_default().push((id.to_string(), *v));
            }
        }
        for f in out.iter_mut() {
            if let FK::Scalar { id, w: 1 } = &f.k {
                if let Some(o) = flags.get(id) {
                    f.k = FK::Flag { id: id.clone(), opts: o.clone() };
                }
            }
        }
        Ok(Level { id: id.to_string(), fields: out, cons: cons.clone() })
    }

    pub fn chain(&self, id: &str) -> Result<Vec<String>, ModelError> {
        let mut c = vec![id.to_string()];
        loop {
            let Some(Decl::Record { parent, .. }) = self.get(&c[0]) else { return me(format!("no record {}", c[0])) };
            match parent {
                Some(p) => {
                    if c.len() > 32 {
                        return me("inheritance too deep");
                    }
                    c.insert(0, p.clone())
                }
                None => break,
            }
        }
        Ok(c)
    }

    pub fn flat(&self, id: &str) -> Result<Flat, ModelError> {
        let Some(Decl::Record { packet, .. }) = self.get(id) else { return me(format!("no record {id}")) };
        let chain = self.chain(id)?;
        let mut levels = vec![];
        let mut cons = BTreeMap::new();
        for c in &chain {
            let l = self.flat_level(c)?;
            for x in &l.cons {
                // find the constrained field in the levels above
                let mut val = None;
                for up in levels.iter().rev() {
                    let up: &Level = up;
                    for f in &up.fields {
                        if f.id() == Some(x.id.as_str()) {
                            val = match (&f.k, &x.v) {
                                (FK::Scalar { .. }, Cv::Int(v)) => Some(*v),
                                (FK::Enum { ty, .. }, Cv::Tag(t)) => self.tag_value(ty, t),
                                _ => None,
                            };
                        }
                    }
                    if val.is_some() {
                        break;
                    }
                }
                let Some(v) = val else { return me(format!("bad constraint {} in {}", x.id, c)) };
                cons.insert(x.id.clone(), v);
            }
            levels.push(l);
        }
        Ok(Flat { id: id.to_string(), packet: *packet, levels, cons })
    }
}

impl Flat {
    /// ids of the data fields that appear in the JSON value of this type, with their FF
    pub fn data_fields(&self) -> Vec<&FF> {
        let mut v = vec![];
        for l in &self.levels {
            for f in &l.fields {
                if f.is_data() && !self.cons.contains_key(f.id().unwrap()) {
                    v.push(f);
                }
            }
        }
        v
    }
    pub fn last(&self) -> &Level {
        self.levels.last().unwrap()
    }
    pub fn has_payload(&self) -> bool {
        self.last().fields.iter().any(|f| matches!(f.k, FK::Payload { .. }))
    }
}

//! Property loops that run inside the generated Rust harness (C01-C06, C15, C17, C18).
use crate::choice::{run_streams, Src};
use crate::evidence::{fnv, Acc};
use crate::harness::*;
use crate::kf::Kf;
use crate::model::*;
use crate::refcodec::*;
use crate::values::*;
use serde_json::{json, Value};
use std::collections::BTreeSet;

pub fn hex(b: &[u8]) -> String {
    b.iter().map(|x| format!("{:02x}", x)).collect()
}
pub fn unhex(s: &str) -> Vec<u8> {
    (0..s.len() / 2).map(|i| u8::from_str_radix(&s[2 * i..2 * i + 2], 16).unwrap_or(0)).collect()
}

#[derive(Clone, Debug)]
pub enum Input {
    Bytes(Vec<u8>),
    Value(Value),
    /// value of another type of the same description (C06: child values)
    TypedValue(String, Value),
}

#[derive(Clone, Debug)]
pub struct Case {
    pub input: Input,
    pub label: String,
    pub single_fault: bool,
    pub expect_err: Option<EncErr>,
}

#[derive(Clone, Debug)]
pub struct Fail {
    pub op: String,
    pub outcome: String,
    pub detail: String,
    /// event tags specific to this failure (e.g. of the reference decoding of the child concerned)
    pub events: Events,
}

#[derive(Default)]
pub struct CaseResult {
    pub fails: Vec<Fail>,
    pub nontrivial: bool,
    pub outcome: String,
    pub events: Events,
}

pub struct Ctx<'a> {
    pub prop: String,
    pub thorough: bool,
    pub seed: u64,
    pub batch: &'a Batch,
    pub table: &'a Table,
    pub kf: &'a Kf,
    pub shard: (usize, usize),
    pub journal: Option<std::fs::File>,
}

impl<'a> Ctx<'a> {
    fn note(&self, ti: usize, what: &str, payload: &[u8]) {
        use std::os::unix::fs::FileExt;
        if let Some(f) = &self.journal {
            let mut buf = Vec::with_capacity(64 + payload.len());
            let head = format!("{}\t{}\t{}\t", self.prop, ti, what);
            let total = head.len() + payload.len() * 2 + 1;
            buf.extend_from_slice(format!("{:08}\t", total).as_bytes());
            buf.extend_from_slice(head.as_bytes());
            buf.extend_from_slice(hex(payload).as_bytes());
            buf.push(b'\n');
            let _ = f.write_at(&buf, 0);
        }
    }
    fn type_index(&self, desc: usize, name: &str) -> Option<usize> {
        self.table.types.iter().position(|t| t.desc == desc && t.name == name)
    }
}

// ------------------------------------------------------------------ feature tags

pub fn type_tags(r: &Ref, ty: &str) -> BTreeSet<String> {
    let mut tags = BTreeSet::new();
    let mut seen = BTreeSet::new();
    fn walk(r: &Ref, ty: &str, tags: &mut BTreeSet<String>, seen: &mut BTreeSet<String>, depth: usize) {
        if depth > 4 || !seen.insert(ty.to_string()) {
            return;
        }
        let Ok(fl) = r.d.flat(ty) else { return };
        if fl.levels.len() > 1 {
            tags.insert("child".into());
            // own fields narrower than an octet, under an ancestor whose payload has a size field
            let sized_above = fl.levels[..fl.levels.len() - 1].iter().any(|l| l.fields.iter().any(|f| matches!(&f.k, FK::Size { target, .. } if target.starts_with('_'))));
            let subbyte = fl.last().fields.iter().any(|f| f.bits().map(|w| w % 8 != 0).unwrap_or(false));
            if sized_above && subbyte {
                tags.insert("child.bitfields-under-sized-payload".into());
            }
            // a payload of its own next to other own fields, under an ancestor whose payload has a size field
            if sized_above && fl.last().fields.iter().any(|f| matches!(f.k, FK::Payload { .. })) && fl.last().fields.iter().any(|f| !matches!(f.k, FK::Payload { .. }) && f.bits().map(|w| w > 0).unwrap_or(true)) {
                tags.insert("child.own-payload-under-sized-payload".into());
            }
            // an ancestor declares fields behind its payload / body
            let trailing = fl.levels[..fl.levels.len() - 1].iter().any(|l| {
                let pos = l.fields.iter().position(|f| matches!(f.k, FK::Payload { .. }));
                pos.map(|p| l.fields[p + 1..].iter().any(|g| g.bits().map(|w| w > 0).unwrap_or(true))).unwrap_or(false)
            });
            if trailing {
                tags.insert("child.ancestor-fields-after-payload".into());
            }
            if fl.levels[..fl.levels.len() - 1].iter().any(|l| l.fields.iter().any(|f| matches!(&f.k, FK::Count { .. }))) {
                tags.insert("child.ancestor-count-array".into());
            }
        }
        if !r.d.children_of(ty).is_empty() {
            tags.insert("parent".into());
        }
        for level in &fl.levels {
            for f in &level.fields {
                match &f.k {
                    FK::Array { id, elem, count, modifier, padding } => {
                        tags.insert("array".into());
                        let es = r.elem_static(elem);
                        tags.insert(
                            match elem {
                                Elem::Bits(8) => "array.elem=u8".to_string(),
                                Elem::Bits(w) => format!("array.elem=bits{w}"),
                                Elem::Ty(t) => match r.d.ty_kind(t) {
                                    Some(TyKind::Enum) => "array.elem=enum".into(),
                                    Some(TyKind::Custom(_)) => "array.elem=custom".into(),
                                    _ => {
                                        if es.is_some() {
                                            "array.elem=struct-static".into()
                                        } else {
                                            "array.elem=struct-dyn".into()
                                        }
                                    }
                                },
                            },
                        );
                        if let Elem::Bits(w) = elem {
                            if ![8, 16, 32, 64].contains(w) {
                                tags.insert("array.elem=bits-odd".into());
                            }
                        }
                        let mut shape = "unsized";
                        if count.is_some() {
                            shape = "static";
                        }
                        for g in &level.fields {
                            match &g.k {
                                FK::Size { target, w } if target == id => {
                                    shape = "size";
                                    tags.insert(format!("array.size.w={w}"));
                                }
                                FK::Count { target, w } if target == id => {
                                    shape = "count";
                                    tags.insert(format!("array.count.w={w}"));
                                    if *w >= 56 {
                                        tags.insert("array.count.w>=56".into());
                                    }
                                }
                                FK::ElemSize { target, .. } if target == id => {
                                    tags.insert("array.es".into());
                                }
                                _ => {}
                            }
                        }
                        tags.insert(format!("array.shape={shape}"));
                        if padding.is_some() {
                            tags.insert("array.pad".into());
                            tags.insert(format!("array.pad.shape={shape}"));
                            if es.is_none() {
                                tags.insert("array.pad.elem=dyn".into());
                            }
                        }
                        if *modifier > 0 {
                            tags.insert("array.modifier".into());
                        }
                        if let Elem::Ty(t) = elem {
                            if matches!(r.d.get(t), Some(Decl::Record { parent: Some(_), .. })) {
                                tags.insert("array.elem=derived-struct".into());
                            }
                            walk(r, t, tags, seen, depth + 1);
                        }
                    }
                    FK::Struct { ty, .. } => {
                        tags.insert(if f.cond.is_some() { "opt.struct".into() } else { "struct-field".into() });
                        walk(r, ty, tags, seen, depth + 1);
                    }
                    FK::Scalar { .. } if f.cond.is_some() => {
                        tags.insert("opt.scalar".into());
                    }
                    FK::Enum { .. } if f.cond.is_some() => {
                        tags.insert("opt.enum".into());
                    }
                    FK::Custom { .. } => {
                        tags.insert("custom".into());
                    }
                    FK::Payload { modifier, .. } => {
                        tags.insert("payload".into());
                        // a payload without size field that is not the last thing of its level, next to another
                        // variable-length field of the same level
                        let pos = level.fields.iter().position(|g| std::ptr::eq(g, f)).unwrap_or(0);
                        let sized = level.fields.iter().any(|g| matches!(&g.k, FK::Size { target, .. } if target.starts_with('_')));
                        let followed = level.fields[pos + 1..].iter().any(|g| g.bits().map(|w| w > 0).unwrap_or(true));
                        let other_dyn = level.fields.iter().any(|g| !std::ptr::eq(g, f) && !matches!(g.k, FK::Padding { .. }) && r.field_static_bits(g).is_none());
                        if !sized && followed && other_dyn {
                            tags.insert("payload.unsized-followed-with-other-dynamic-field".into());
                        }
                        if *modifier > 0 {
                            tags.insert("payload.modifier".into());
                        }
                    }
                    FK::Size { w, .. } | FK::Count { w, .. } | FK::ElemSize { w, .. } => {
                        if *w == 64 {
                            tags.insert("len.w=64".into());
                        }
                    }
                    _ => {}
                }
            }
        }
    }
    walk(r, ty, &mut tags, &mut seen, 0);
    tags
}

/// Structural predicate for the round-trippable class (C02): decode_full(encode(v)) == v is
/// promised when every variable-length part is delimited or is last in its scope.
pub fn self_delimiting(r: &Ref, ty: &str, depth: usize) -> bool {
    rt_class(r, ty, depth).0
}

/// (self-delimiting, round-trippable-when-last)
pub fn rt_class(r: &Ref, ty: &str, depth: usize) -> (bool, bool) {
    if depth > 6 {
        return (false, false);
    }
    let Ok(fl) = r.d.flat(ty) else { return (false, false) };
    let mut sd = true;
    let mut last_ok = true;
    let nl = fl.levels.len();
    for (li, level) in fl.levels.iter().enumerate() {
        let n = level.fields.len();
        let lens: Vec<(&str, bool)> = level
            .fields
            .iter()
            .filter_map(|f| match &f.k {
                FK::Size { target, .. } => Some((target.as_str(), true)),
                FK::Count { target, .. } => Some((target.as_str(), false)),
                _ => None,
            })
            .collect();
        for (i, f) in level.fields.iter().enumerate() {
            // is anything with a size behind this field in this level?
            let tail_static = level.fields[i + 1..].iter().all(|g| r.field_static_bits(g).is_some());
            let is_last_dyn = level.fields[i + 1..].iter().all(|g| matches!(g.k, FK::Padding { .. }));
            let _ = n;
            match &f.k {
                FK::Array { id, elem, count, padding, .. } => {
                    let esd = match elem {
                        Elem::Bits(_) => true,
                        Elem::Ty(t) => match r.d.ty_kind(t) {
                            Some(TyKind::Struct) => self_delimiting(r, t, depth + 1),
                            _ => true,
                        },
                    };
                    let has_esz = level.fields.iter().any(|g| matches!(&g.k, FK::ElemSize { target, .. } if target == id));
                    let elem_rt_inside_chunk = match elem {
                        Elem::Ty(t) if has_esz => rt_class(r, t, depth + 1).1,
                        _ => true,
                    };
                    let delimited = count.is_some() || lens.iter().any(|(t, _)| *t == id.as_str());
                    let by_count_only = count.is_some() || lens.iter().any(|(t, is_size)| *t == id.as_str() && !*is_size);
                    let elems_ok = if has_esz { elem_rt_inside_chunk } else { esd };
                    // an element-size field with an empty array writes 0; fine.  With a count and
                    // element size both 0-size elements are fine too.
                    if delimited && elems_ok {
                        // ok, self-delimiting
                        let _ = by_count_only;
                    } else if !delimited && elems_ok && padding.is_none() && is_last_dyn && li + 1 == nl {
                        sd = false; // only ok when last
                    } else {
                        sd = false;
                        last_ok = false;
                    }
                }
                FK::Struct { ty, .. } => {
                    let (s2, l2) = rt_class(r, ty, depth + 1);
                    if !s2 {
                        sd = false;
                        if !(l2 && is_last_dyn && li + 1 == nl && f.cond.is_none()) {
                            last_ok = false;
                        }
                    }
                }
                FK::Payload { .. } => {
                    let sized = lens.iter().any(|(t, _)| *t == "_payload_" || *t == "_body_");
                    if !sized {
                        sd = false;
                        if !tail_static {
                            last_ok = false;
                        }
                    }
                    // the child's fields live in the payload: when the payload is not the end of
                    // the parent, the child part must still be parseable in its window: any type
                    // is, since the window delimits it.
                }
                _ => {}
            }
        }
    }
    (sd, last_ok)
}

// ------------------------------------------------------------------ case generation

const STREAM_LEN: usize = 400;

fn source_types(d: &Desc, ty: &str) -> Vec<String> {
    let mut v = vec![ty.to_string(), ty.to_string()];
    v.extend(d.descendants_of(ty));
    v
}

fn static_hint(r: &Ref, ty: &str) -> usize {
    let fl = r.flat(ty);
    let mut bits = 0u64;
    for l in &fl.levels {
        for f in &l.fields {
            bits += r.field_static_bits(f).unwrap_or(0);
        }
    }
    (bits / 8).min(64) as usize
}

pub fn gen_case(prop: &str, r: &Ref, ty: &str, s: &mut Src) -> Option<Case> {
    match prop {
        "C01" | "C04" => {
            let b = gen_bytes(r, &source_types(r.d, ty), static_hint(r, ty), s);
            Some(Case { input: Input::Bytes(b.bytes), label: b.label, single_fault: b.single_fault, expect_err: None })
        }
        "C02" | "C03" | "C17" => {
            let (v, _) = gen_encodable(r, ty, s)?;
            Some(Case { input: Input::Value(v), label: "in-range".into(), single_fault: false, expect_err: None })
        }
        "C05" => {
            let (v, _) = gen_encodable(r, ty, s)?;
            if s.below(2) == 0 {
                return Some(Case { input: Input::Value(v), label: "in-range".into(), single_fault: false, expect_err: None });
            }
            match gen_faulty(r, ty, &v, s) {
                Some(f) => Some(Case { input: Input::Value(f.value), label: format!("fault:{}", f.label), single_fault: true, expect_err: Some(f.expect) }),
                None => Some(Case { input: Input::Value(v), label: "in-range".into(), single_fault: false, expect_err: None }),
            }
        }
        "C11" | "C18" => {
            if s.below(2) == 0 {
                let b = gen_bytes(r, &source_types(r.d, ty), static_hint(r, ty), s);
                Some(Case { input: Input::Bytes(b.bytes), label: format!("bytes:{}", b.label), single_fault: false, expect_err: None })
            } else {
                let (v, _) = gen_encodable(r, ty, s)?;
                match if s.below(3) == 0 { gen_faulty(r, ty, &v, s) } else { None } {
                    Some(f) => Some(Case { input: Input::Value(f.value), label: format!("value:fault:{}", f.label), single_fault: false, expect_err: Some(f.expect) }),
                    None => Some(Case { input: Input::Value(v), label: "value:in-range".into(), single_fault: false, expect_err: None }),
                }
            }
        }
        "C06" => {
            let desc_types = r.d.descendants_of(ty);
            if !desc_types.is_empty() && s.below(5) < 3 {
                // parent value decoded from bytes
                let b = gen_bytes(r, &source_types(r.d, ty), static_hint(r, ty), s);
                Some(Case { input: Input::Bytes(b.bytes), label: format!("parent-bytes:{}", b.label), single_fault: false, expect_err: None })
            } else if !desc_types.is_empty() {
                let ct = s.pick(&desc_types).clone();
                let (v, _) = gen_encodable(r, &ct, s)?;
                Some(Case { input: Input::TypedValue(ct, v), label: "child-value".into(), single_fault: false, expect_err: None })
            } else {
                None
            }
        }
        _ => None,
    }
}

// ------------------------------------------------------------------ oracles

fn fail(op: &str, outcome: impl Into<String>, detail: impl Into<String>) -> Fail {
    Fail { op: op.into(), outcome: outcome.into(), detail: detail.into(), events: Events::new() }
}

fn fail_ev(op: &str, outcome: impl Into<String>, detail: impl Into<String>, events: Events) -> Fail {
    Fail { op: op.into(), outcome: outcome.into(), detail: detail.into(), events }
}

fn out_brief<T: std::fmt::Debug>(o: &Out<T>) -> String {
    let s = format!("{:?}", o);
    s.chars().take(300).collect()
}

fn check_c01(ctx: &Ctx, ti: usize, r: &Ref, case: &Case) -> CaseResult {
    let t = &ctx.table.types[ti];
    let Input::Bytes(b) = &case.input else { return CaseResult::default() };
    ctx.note(ti, "dec", b);
    let rep = (t.dec)(b);
    let mut res = CaseResult::default();
    let mut ev = Events::new();
    let refd = r.decode(&t.name, b, false, &mut ev);
    res.events = ev;
    for (op, o) in [("decode", rep.decode.kind()), ("decode_full", rep.full.kind()), ("decode_mut", rep.mutr.kind())] {
        if o.starts_with("Panic") {
            let msg = match op {
                "decode" => out_brief(&rep.decode),
                "decode_full" => out_brief(&rep.full),
                _ => out_brief(&rep.mutr),
            };
            res.fails.push(fail(op, format!("panic:{}", &o[6..o.len() - 1]), msg));
        }
    }
    if !rep.suffix_ok {
        res.fails.push(fail("decode", "remainder-not-suffix", ""));
    }
    if !rep.mut_ok {
        res.fails.push(fail("decode_mut", "slice-law", format!("decode={} decode_mut={}", rep.decode.kind(), rep.mutr.kind())));
    }
    let budget = (1usize << 20) + 256 * b.len();
    if rep.alloc > budget {
        res.fails.push(fail("decode", "alloc-out-of-proportion", format!("{} bytes allocated for {} input octets", rep.alloc, b.len())));
    }
    if let Out::Ok((v, rest)) = &rep.decode {
        // events of the reference decoding of the same octets as a given descendant
        let consumed = &b[..b.len() - (*rest).min(b.len())];
        let child_events = |d: &str| -> Events {
            let mut ev = Events::new();
            let _ = r.decode(d, consumed, true, &mut ev);
            ev.extend(type_tags(r, d).into_iter().map(|t| format!("child:{t}")));
            ev
        };
        if let Some(spec) = &t.spec {
            ctx.note(ti, "spec", b);
            if let Out::Panic(m) = spec(v) {
                let mut ev = Events::new();
                for d in r.d.descendants_of(&t.name) {
                    ev.extend(child_events(&d));
                }
                res.fails.push(fail_ev("specialize", format!("panic:{}", panic_class(&m)), m, ev));
            }
        }
        for c in ctx.table.convs.iter().filter(|c| c.desc == t.desc && c.ancestor == t.name) {
            ctx.note(ti, "conv", b);
            if let Out::Panic(m) = (c.down)(v) {
                res.fails.push(fail_ev("try_from", format!("panic:{}", panic_class(&m)), format!("{} -> {}: {m}", c.ancestor, c.descendant), child_events(&c.descendant)));
            }
        }
    }
    // non-trivial: consumed at least one octet, or failed later than the first length guard
    res.nontrivial = match &rep.decode {
        Out::Ok((_, rest)) => *rest < b.len(),
        _ => !matches!(refd, Err(DecErr::Length)) || b.len() > static_hint(r, &t.name),
    };
    res.outcome = rep.decode.kind();
    res
}

fn check_c03(ctx: &Ctx, ti: usize, r: &Ref, case: &Case) -> CaseResult {
    let t = &ctx.table.types[ti];
    let Input::Value(v) = &case.input else { return CaseResult::default() };
    let mut res = CaseResult::default();
    let refe = r.encode(&t.name, v);
    ctx.note(ti, "enc", v.to_string().as_bytes());
    let rep = (t.enc)(v, &[]);
    if let Err(e) = &rep.from_json {
        res.fails.push(fail("from_json", "rejected-in-range-value", e.clone()));
        res.outcome = "from_json-error".into();
        return res;
    }
    match (&refe, &rep.to_vec) {
        (Ok(e), Out::Ok(b)) => {
            res.events = e.events.clone();
            if &e.bytes != b {
                res.fails.push(fail("encode", "bytes-differ", format!("reference {} rust {}", hex(&e.bytes), hex(b))));
            }
            res.nontrivial = e.bytes.len() >= 2 && e.layout.iter().any(|c| (c.kind == ChunkKind::BitGroup && (c.bits.len() > 1 || c.len > 1)) || c.bits.iter().any(|b| matches!(b.kind, BitKind::Size | BitKind::Count)));
            res.outcome = "Ok".into();
        }
        (Err(e), Out::Err { kind, .. }) => {
            res.outcome = format!("both-err({},{kind})", e.rust_name());
        }
        (Ok(e), o) => {
            res.events = e.events.clone();
            res.fails.push(fail("encode", format!("rust-fails:{}", o.kind()), out_brief(o)));
            res.outcome = "rust-fails".into();
        }
        (Err(e), o) => {
            res.fails.push(fail("encode", format!("rust-accepts-out-of-range:{:?}:{}", e, o.kind()), out_brief(o)));
            res.outcome = "ref-fails".into();
        }
    }
    res
}

/// ancestors of ty, nearest first
fn ancestors(d: &Desc, ty: &str) -> Vec<String> {
    let mut c = d.chain(ty).unwrap_or_default();
    c.pop();
    c.reverse();
    c
}

fn check_c02(ctx: &Ctx, ti: usize, r: &Ref, case: &Case) -> CaseResult {
    let t = &ctx.table.types[ti];
    let Input::Value(v) = &case.input else { return CaseResult::default() };
    let mut res = CaseResult::default();
    ctx.note(ti, "enc", v.to_string().as_bytes());
    let rep = (t.enc)(v, &[]);
    if let Err(e) = &rep.from_json {
        res.fails.push(fail("from_json", "rejected-in-range-value", e.clone()));
        return res;
    }
    if let Ok(e) = r.encode(&t.name, v) {
        res.events = e.events;
    }
    let bytes = match &rep.to_vec {
        Out::Ok(b) => b.clone(),
        o => {
            res.fails.push(fail("encode", format!("fails-on-in-range-value:{}", o.kind()), out_brief(o)));
            res.outcome = "encode-fails".into();
            return res;
        }
    };
    match &rep.rt {
        Some(Out::Ok((true, _))) => res.outcome = "round-trip".into(),
        Some(Out::Ok((false, j))) => {
            res.fails.push(fail("decode_full", "round-trip-differs", format!("bytes {} decoded {}", hex(&bytes), j)));
            res.outcome = "differs".into();
        }
        Some(o) => {
            res.fails.push(fail("decode_full", format!("round-trip-fails:{}", o.kind()), format!("bytes {} {}", hex(&bytes), out_brief(o))));
            res.outcome = "decode-fails".into();
        }
        None => {}
    }
    // through every ancestor: decode as A, convert down / specialize down the path, get v again
    let chain = r.d.chain(&t.name).unwrap_or_default();
    let vj = rep.json_back.clone().unwrap_or(v.clone());
    for a in ancestors(r.d, &t.name) {
        let Some(ai) = ctx.type_index(t.desc, &a) else { continue };
        ctx.note(ai, "dec", &bytes);
        let arep = (ctx.table.types[ai].dec)(&bytes);
        let aj = match &arep.full {
            Out::Ok(j) => j.clone(),
            o => {
                res.fails.push(fail("decode_full", format!("ancestor-fails:{}", o.kind()), format!("as {a}: bytes {} {}", hex(&bytes), out_brief(o))));
                continue;
            }
        };
        if let Some(c) = ctx.table.convs.iter().find(|c| c.desc == t.desc && c.ancestor == a && c.descendant == t.name) {
            match (c.down)(&aj) {
                Out::Ok(d) if d == vj => {}
                o => res.fails.push(fail("try_from", format!("ancestor-round-trip:{}", if o.is_ok() { "differs".to_string() } else { o.kind() }), format!("{a} -> {}: {}", t.name, out_brief(&o)))),
            }
        }
        // specialize along the path
        let pos = chain.iter().position(|x| x == &a).unwrap();
        let mut cur = aj.clone();
        let mut ok = true;
        for k in pos..chain.len() - 1 {
            let Some(pi) = ctx.type_index(t.desc, &chain[k]) else {
                ok = false;
                break;
            };
            let Some(spec) = &ctx.table.types[pi].spec else {
                ok = false;
                break;
            };
            // another child subtree of this level whose constraints the value satisfies as well: the description
            // leaves the dispatch open (siblings constraining different fields), whatever specialize() picks
            let rival = {
                let pobj = cur.as_object().cloned().unwrap_or_default();
                r.d.children_of(&chain[k]).iter().filter(|ch| **ch != chain[k + 1]).any(|ch| {
                    let mut nodes = vec![ch.clone()];
                    nodes.extend(r.d.descendants_of(ch));
                    nodes.iter().any(|n| cons_below(r, &chain[k], n).iter().all(|(f, v)| pobj.get(f).map(|g| g.as_u64() == Some(*v)).unwrap_or(true)))
                })
            };
            match spec(&cur) {
                Out::Ok(c) => match c.get(&chain[k + 1]) {
                    Some(x) => cur = x.clone(),
                    None if rival => {
                        ok = false;
                        res.events.insert("ambiguous-sibling-constraints".into());
                        break;
                    }
                    None => {
                        // a child without discriminant specializes to None (statement ambiguity, see DESIGN C06-L)
                        if c == json!("None") && !strong_match(r, &chain[k], &chain[k + 1], cur.as_object().unwrap_or(&serde_json::Map::new())) {
                            ok = false;
                            res.events.insert("alias-without-discriminant".into());
                            break;
                        }
                        res.fails.push(fail("specialize", "wrong-child", format!("{} specialized to {} instead of {}", chain[k], c, chain[k + 1])));
                        ok = false;
                        break;
                    }
                },
                _ if rival => {
                    ok = false;
                    res.events.insert("ambiguous-sibling-constraints".into());
                    break;
                }
                o => {
                    res.fails.push(fail("specialize", format!("fails-on-valid:{}", o.kind()), out_brief(&o)));
                    ok = false;
                    break;
                }
            }
        }
        if ok && cur != vj {
            res.fails.push(fail("specialize", "round-trip-differs", format!("from {a}: {cur} != {vj}")));
        }
    }
    res.nontrivial = v.as_object().map(|o| o.values().any(|x| matches!(x, Value::Array(a) if !a.is_empty()) || matches!(x, Value::Number(n) if n.as_u64() != Some(0)) || x.is_object())).unwrap_or(false);
    res
}

/// Does child `c` of `p` have a *discriminated* match for the parent value `pobj`: a node N of
/// c's subtree whose constraints on fields visible in the parent value are non-empty and all
/// satisfied, or (where constraints alone cannot tell cases apart) whose constant size equals
/// the payload length.  A match that is only vacuous (no constraint, no usable size) is the
/// ambiguous alias case of DESIGN C06-L: both the child and None are accepted for it.
fn strong_match(r: &Ref, p: &str, c: &str, pobj: &serde_json::Map<String, Value>) -> bool {
    let plen = pobj.get("payload").and_then(|x| x.as_array()).map(|a| a.len() as u64);
    // is there an ambiguity by constraints alone among all cases of p?
    let mut cases: Vec<(String, Vec<(String, u64)>)> = vec![];
    for ch in r.d.children_of(p) {
        let mut nodes = vec![ch.clone()];
        nodes.extend(r.d.descendants_of(&ch));
        for n in nodes {
            let mut cons: Vec<(String, u64)> = cons_below(r, p, &n).into_iter().filter(|(k, _)| pobj.contains_key(k)).collect();
            cons.sort();
            cases.push((ch.clone(), cons));
        }
    }
    let ambiguous = cases.iter().any(|(c1, k1)| cases.iter().any(|(c2, k2)| c1 != c2 && k1 == k2));
    let mut nodes = vec![c.to_string()];
    nodes.extend(r.d.descendants_of(c));
    for n in &nodes {
        let cons: Vec<(String, u64)> = cons_below(r, p, n).into_iter().filter(|(k, _)| pobj.contains_key(k)).collect();
        let sat = cons.iter().all(|(k, v)| pobj.get(k).and_then(|x| x.as_u64()) == Some(*v));
        if !sat {
            continue;
        }
        if !cons.is_empty() {
            return true;
        }
        if ambiguous {
            if let (Some(s), Some(l)) = (own_static_octets(r, n), plen) {
                if s == l {
                    return true;
                }
            }
        }
    }
    false
}

fn check_c04(ctx: &Ctx, ti: usize, r: &Ref, case: &Case) -> CaseResult {
    let t = &ctx.table.types[ti];
    let Input::Bytes(b) = &case.input else { return CaseResult::default() };
    let mut res = CaseResult::default();
    let mut ev = Events::new();
    let refd = r.decode(&t.name, b, true, &mut ev);
    res.events = ev;
    ctx.note(ti, "dec", b);
    let rep = (t.dec)(b);
    match (&refd, &rep.full) {
        (Ok((rv, _)), Out::Ok(j)) => {
            if rv != j {
                res.fails.push(fail("decode_full", "value-differs", format!("reference {rv} rust {j}")));
            }
            match r.encode(&t.name, rv) {
                Ok(e) => match &rep.reenc {
                    Some(Out::Ok(bytes)) if bytes == &e.bytes => {}
                    Some(o) => res.fails.push(fail("encode", format!("re-encoding-differs:{}", o.kind()), format!("canonical {} got {}", hex(&e.bytes), out_brief(o)))),
                    None => {}
                },
                Err(e) => res.fails.push(fail("reference", "cannot-reencode-own-decoding", format!("{e:?}"))),
            }
            res.outcome = "accept".into();
            res.nontrivial = true;
        }
        (Err(k), Out::Err { kind, .. }) => {
            if case.single_fault && k.rust_name() != kind {
                res.fails.push(fail("decode_full", format!("wrong-error-kind({}->{kind})", k.rust_name()), format!("input class {}", case.label)));
            }
            res.outcome = format!("reject:{}", k.rust_name());
            res.nontrivial = *k != DecErr::Length || b.len() > static_hint(r, &t.name);
        }
        (Ok((rv, _)), o) => {
            if o.is_panic() {
                res.fails.push(fail("decode_full", format!("panic-on-valid:{}", o.kind()), format!("reference value {rv}; {}", out_brief(o))));
            } else {
                res.fails.push(fail("decode_full", format!("rejects-where-R-accepts:{}", o.kind()), format!("reference value {rv}; {}", out_brief(o))));
            }
            res.outcome = "rust-rejects".into();
            res.nontrivial = true;
        }
        (Err(k), Out::Ok(j)) => {
            res.fails.push(fail("decode_full", format!("accepts-where-R-rejects:{}", k.rust_name()), format!("rust value {j}")));
            res.outcome = "rust-accepts".into();
            res.nontrivial = true;
        }
        (Err(k), Out::Panic(_)) => {
            // totality is C01's business; here only the verdict matters and a panic is not an acceptance
            res.outcome = format!("reject:{}/panic", k.rust_name());
        }
    }
    res
}

fn check_c05(ctx: &Ctx, ti: usize, r: &Ref, case: &Case) -> CaseResult {
    let t = &ctx.table.types[ti];
    let Input::Value(v) = &case.input else { return CaseResult::default() };
    let mut res = CaseResult::default();
    ctx.note(ti, "enc", v.to_string().as_bytes());
    let rep = (t.enc)(v, &[]);
    if let Err(e) = &rep.from_json {
        res.fails.push(fail("from_json", "rejected-value", e.clone()));
        return res;
    }
    let (_, mut ev) = r.encode_events(&t.name, v);
    if let Some(x) = &case.expect_err {
        ev.insert(format!("expect:{}", x.rust_name()));
    }
    res.events = ev;
    for (op, o) in [("encode_to_vec", &rep.to_vec), ("encode", &rep.into_vec)] {
        if let Out::Panic(m) = o {
            res.fails.push(fail(op, format!("panic:{}", panic_class(m)), m.clone()));
        }
    }
    if let Out::Panic(m) = &rep.len {
        res.fails.push(fail("encoded_len", format!("panic:{}", panic_class(m)), m.clone()));
    }
    match &case.expect_err {
        None => {
            match (&rep.to_vec, &rep.len) {
                (Out::Ok(b), Out::Ok(n)) => {
                    if b.len() != *n {
                        res.fails.push(fail("encoded_len", "length-differs", format!("encoded_len()={n}, wrote {}", b.len())));
                    }
                }
                (Out::Err { kind, detail }, _) => res.fails.push(fail("encode", format!("fails-on-in-range-value:Err({kind})"), detail.clone())),
                _ => {}
            }
            res.outcome = "in-range".into();
            res.nontrivial = v.as_object().map(|o| o.values().any(|x| x.is_array() || x.is_object())).unwrap_or(false);
        }
        Some(exp) => {
            res.nontrivial = true;
            // one injected fault can make several range conditions fail at once (one element too many for the count
            // field also overflows an enclosing payload size field): any error that applies is "the corresponding" one
            let applicable: Vec<&'static str> = r.encode_all_errors(&t.name, v).iter().map(|e| e.rust_name()).collect();
            for (op, o) in [("encode_to_vec", &rep.to_vec), ("encode", &rep.into_vec)] {
                match o {
                    Out::Ok(b) => res.fails.push(fail(op, format!("truncates:{}", exp.rust_name()), format!("wrote {} for an out-of-range value ({})", hex(b), case.label))),
                    Out::Err { kind, .. } if kind != exp.rust_name() && !applicable.contains(&kind.as_str()) => res.fails.push(fail(op, format!("wrong-error-kind({}->{kind})", exp.rust_name()), case.label.clone())),
                    _ => {}
                }
            }
            res.outcome = format!("fault:{}", exp.rust_name());
        }
    }
    res
}

fn same_out<T: PartialEq + std::fmt::Debug>(a: &Out<T>, b: &Out<T>) -> bool {
    match (a, b) {
        (Out::Ok(x), Out::Ok(y)) => x == y,
        (Out::Err { kind: k1, detail: d1 }, Out::Err { kind: k2, detail: d2 }) => k1 == k2 && d1 == d2,
        (Out::Panic(_), Out::Panic(_)) => true,
        _ => false,
    }
}

fn check_c18(ctx: &Ctx, ti: usize, _r: &Ref, case: &Case) -> CaseResult {
    let t = &ctx.table.types[ti];
    let mut res = CaseResult::default();
    match &case.input {
        Input::Bytes(b) => {
            ctx.note(ti, "dec", b);
            let rep = (t.dec)(b);
            match (&rep.decode, &rep.full) {
                (Out::Ok((v, 0)), Out::Ok(f)) if v == f => {}
                (Out::Ok((_, n)), Out::Err { kind, .. }) if *n > 0 && kind == "TrailingBytesError" => {}
                (Out::Err { kind: k1, detail: d1 }, Out::Err { kind: k2, detail: d2 }) if k1 == k2 && d1 == d2 => {}
                (Out::Panic(_), Out::Panic(_)) => {}
                (d, f) => res.fails.push(fail("decode_full", "law:decode_full-vs-decode", format!("decode={} decode_full={}", out_brief(d), out_brief(f)))),
            }
            if !rep.mut_ok {
                res.fails.push(fail("decode_mut", "law:decode_mut", format!("decode={} decode_mut={}", rep.decode.kind(), rep.mutr.kind())));
            }
            match (&rep.decode, &rep.mutr) {
                (Out::Ok((_, n)), Out::Ok(m)) if n == m => {}
                (Out::Err { kind: k1, .. }, Out::Err { kind: k2, .. }) if k1 == k2 => {}
                (Out::Panic(_), Out::Panic(_)) => {}
                (d, m) => res.fails.push(fail("decode_mut", "law:decode_mut-vs-decode", format!("decode={} decode_mut={}", out_brief(d), out_brief(m)))),
            }
            if !rep.suffix_ok {
                res.fails.push(fail("decode", "remainder-not-suffix", ""));
            }
            res.nontrivial = matches!(&rep.decode, Out::Ok((_, n)) if *n > 0) || !rep.decode.is_ok();
            res.outcome = format!("dec:{}", rep.decode.kind());
        }
        Input::Value(v) => {
            let prefix: Vec<u8> = (0..(fnv(&[v.to_string().as_bytes()]) % 33) as u8).map(|i| i.wrapping_mul(37).wrapping_add(11)).collect();
            ctx.note(ti, "enc", v.to_string().as_bytes());
            let rep = (t.enc)(v, &prefix);
            if let Err(e) = &rep.from_json {
                res.fails.push(fail("from_json", "rejected-value", e.clone()));
                return res;
            }
            for (name, o) in [("encode_to_bytes", &rep.to_bytes), ("encode(Vec)", &rep.into_vec), ("encode(BytesMut)", &rep.into_bytesmut)] {
                if !same_out(&rep.to_vec, o) {
                    res.fails.push(fail(name, "law:encoders-disagree", format!("encode_to_vec={} {name}={}", out_brief(&rep.to_vec), out_brief(o))));
                }
            }
            match (&rep.to_vec, &rep.prefixed) {
                (Out::Ok(b), Out::Ok(p)) => {
                    let mut want = prefix.clone();
                    want.extend_from_slice(b);
                    if &want != p {
                        res.fails.push(fail("encode(prefilled)", "law:append", format!("prefix {} + {} != {}", hex(&prefix), hex(b), hex(p))));
                    }
                }
                (Out::Err { kind: k1, .. }, Out::Err { kind: k2, .. }) if k1 == k2 => {}
                (Out::Panic(_), Out::Panic(_)) => {}
                (a, b) => res.fails.push(fail("encode(prefilled)", "law:append-verdict", format!("{} vs {}", out_brief(a), out_brief(b)))),
            }
            res.nontrivial = !rep.to_vec.is_ok() || !prefix.is_empty();
            res.outcome = format!("enc:{}", rep.to_vec.kind());
        }
        _ => {}
    }
    res
}

/// constraints that node `n` (a descendant-or-self of child `c` of `p`) accumulates below `p`
fn cons_below(r: &Ref, p: &str, n: &str) -> Vec<(String, u64)> {
    let pf = r.flat(p);
    let nf = r.flat(n);
    nf.cons.iter().filter(|(k, _)| !pf.cons.contains_key(*k)).map(|(k, v)| (k.clone(), *v)).collect()
}

fn own_static_octets(r: &Ref, n: &str) -> Option<u64> {
    let nf = r.flat(n);
    let mut bits = 0;
    for f in &nf.last().fields {
        bits += r.field_static_bits(f)?;
    }
    Some(bits / 8)
}

fn check_c06(ctx: &Ctx, ti: usize, r: &Ref, case: &Case) -> CaseResult {
    let t = &ctx.table.types[ti];
    let mut res = CaseResult::default();
    match &case.input {
        Input::Bytes(b) => {
            // parent value from arbitrary bytes
            ctx.note(ti, "dec", b);
            let rep = (t.dec)(b);
            let Out::Ok(pj) = &rep.full else {
                res.outcome = "parent-rejected".into();
                return res;
            };
            let Some(spec) = &t.spec else { return res };
            // canonical image of the parent value
            let Ok(pe) = r.encode(&t.name, pj) else {
                res.outcome = "parent-not-encodable".into();
                return res;
            };
            let pbytes = pe.bytes;
            let children = r.d.children_of(&t.name);
            let pobj = pj.as_object().cloned().unwrap_or_default();
            let plen = pobj.get("payload").and_then(|p| p.as_array()).map(|a| a.len() as u64);
            let mut adm_c: Vec<String> = vec![];
            let mut adm_cs: Vec<String> = vec![];
            for c in &children {
                let mut nodes = vec![c.clone()];
                nodes.extend(r.d.descendants_of(c));
                let mut any_c = false;
                let mut any_cs = false;
                for n in &nodes {
                    let cons = cons_below(r, &t.name, n);
                    let sat = cons.iter().all(|(k, v)| match pobj.get(k) {
                        Some(x) => x.as_u64() == Some(*v),
                        None => true, // field not visible in the parent value
                    });
                    if sat {
                        any_c = true;
                        let size_ok = match (own_static_octets(r, n), plen) {
                            (Some(s), Some(l)) => s == l,
                            _ => true,
                        };
                        if size_ok {
                            any_cs = true;
                        }
                    }
                }
                if any_c {
                    adm_c.push(c.clone());
                }
                if any_cs {
                    adm_cs.push(c.clone());
                }
            }
            ctx.note(ti, "spec", b);
            let sp = spec(pj);
            let mut ev = Events::new();
            match &sp {
                Out::Ok(c) if c == &json!("None") => {
                    let strong: Vec<&String> = adm_cs.iter().filter(|x| strong_match(r, &t.name, x, &pobj)).collect();
                    // None is right when nothing matches; when something matches, the selected child must fail to parse
                    // (then Err, not None), so a match with a discriminant contradicts None
                    if !strong.is_empty() {
                        // the size discriminant is only used by the generated code when constraints alone are
                        // ambiguous; when sizes are not used, adm_c decides.  Either way a strong admissible child
                        // whose payload parses must not give None.
                        let parses: Vec<&&String> = strong.iter().filter(|x| r.decode(x, &pbytes, true, &mut ev).is_ok()).collect();
                        if !parses.is_empty() {
                            res.fails.push(fail("specialize", "none-but-child-matches", format!("parent {pj}: admissible and parseable {:?}", parses)));
                        }
                    }
                    res.outcome = "None".into();
                }
                Out::Ok(c) => {
                    let (name, cv) = c.as_object().and_then(|o| o.iter().next()).map(|(k, v)| (k.clone(), v.clone())).unwrap_or_default();
                    if !adm_c.contains(&name) {
                        res.fails.push(fail("specialize", "child-not-admissible", format!("parent {pj} specialized to {name}; admissible {:?}", adm_c)));
                    }
                    match r.decode(&name, &pbytes, true, &mut ev) {
                        Ok((rv, _)) if rv == cv => {}
                        o => res.fails.push(fail("specialize", "child-value-differs", format!("{name}: rust {cv}, reference {:?}", o.map(|x| x.0)))),
                    }
                    res.outcome = "Child".into();
                }
                Out::Err { kind, .. } => {
                    // some admissible child must be rejected by the reference
                    let rejected = adm_c.iter().any(|x| r.decode(x, &pbytes, true, &mut ev).is_err());
                    if !rejected {
                        let mut dt = Events::new();
                        for x in &adm_c {
                            dt.extend(type_tags(r, x).into_iter().map(|t| format!("child:{t}")));
                            for y in r.d.descendants_of(x) {
                                dt.extend(type_tags(r, &y).into_iter().map(|t| format!("child:{t}")));
                            }
                        }
                        res.fails.push(fail_ev("specialize", format!("error-but-children-parse:Err({kind})"), format!("parent {pj}; admissible {:?}", adm_c), dt));
                    }
                    res.outcome = format!("Err({kind})");
                }
                Out::Panic(_) => {
                    // totality of specialize() is decided by C01 (same inputs); not scored twice
                    res.outcome = "Panic(C01's business)".into();
                }
            }
            // Descendant::try_from(&parent) for every descendant
            for c in ctx.table.convs.iter().filter(|c| c.desc == t.desc && c.ancestor == t.name) {
                let got = (c.down)(pj);
                let want = r.decode(&c.descendant, &pbytes, true, &mut ev);
                match (&want, &got) {
                    (Ok((rv, _)), Out::Ok(g)) if rv == g => {}
                    (Err(DecErr::ConstraintValue), Out::Err { kind, .. }) if kind == "ConstraintValueError" => {}
                    (Err(k), Out::Err { kind, .. }) if *k != DecErr::ConstraintValue && kind != "ConstraintValueError" => {}
                    (_, Out::Panic(_)) => {} // C01's business
                    (w, g) => {
                        let dt: Events = type_tags(r, &c.descendant).into_iter().map(|t| format!("child:{t}")).collect();
                        res.fails.push(fail_ev("try_from", format!("down-conversion:{}", g.kind()), format!("{} -> {}: reference {:?}, rust {}", c.ancestor, c.descendant, w.as_ref().map(|x| x.0.to_string()), out_brief(g)), dt))
                    }
                }
            }
            res.events = ev;
            res.nontrivial = !adm_c.is_empty();
        }
        Input::TypedValue(ct, cv) => {
            // child value: up-conversion to this ancestor, same bytes, back down
            let Some(c) = ctx.table.convs.iter().find(|c| c.desc == t.desc && c.ancestor == t.name && &c.descendant == ct) else { return res };
            let Some(ci) = ctx.type_index(t.desc, ct) else { return res };
            ctx.note(ci, "enc", cv.to_string().as_bytes());
            let crep = (ctx.table.types[ci].enc)(cv, &[]);
            if crep.from_json.is_err() {
                res.fails.push(fail("from_json", "rejected-in-range-value", format!("{:?}", crep.from_json)));
                return res;
            }
            let cj = crep.json_back.clone().unwrap_or(cv.clone());
            let up = (c.up)(&cj);
            match &up {
                Out::Ok(aj) => {
                    // constrained fields carry the constraint values
                    let cf = r.flat(ct);
                    for (k, v) in &cf.cons {
                        if let Some(x) = aj.get(k) {
                            if x.as_u64() != Some(*v) {
                                res.fails.push(fail("try_from", "up:constrained-field-wrong", format!("{k} = {x}, constraint {v}")));
                            }
                        }
                    }
                    let arep = (t.enc)(aj, &[]);
                    if !same_out(&arep.to_vec, &crep.to_vec) {
                        res.fails.push(fail("try_from", "up:bytes-differ", format!("parent {} child {}", out_brief(&arep.to_vec), out_brief(&crep.to_vec))));
                    }
                    // converting back re-parses the payload: promised for the round-trippable class only
                    if rt_class(r, ct, 0).1 {
                        match (c.down)(aj) {
                            Out::Ok(back) if back == cj => {}
                            Out::Panic(_) => {} // totality is C01's business
                            o => res.fails.push(fail("try_from", "up-down:differs", format!("{} -> {} -> {}: {}", ct, t.name, ct, out_brief(&o)))),
                        }
                    }
                    res.outcome = "up:Ok".into();
                }
                o => {
                    // converting a child to its parent encodes the child part: fails iff encoding fails
                    if crep.to_vec.is_ok() {
                        res.fails.push(fail("try_from", format!("up:fails-on-encodable-child:{}", o.kind()), out_brief(o)));
                    }
                    res.outcome = format!("up:{}", o.kind());
                }
            }
            res.nontrivial = true;
        }
        _ => {}
    }
    res
}

fn check_c17(ctx: &Ctx, ti: usize, r: &Ref, case: &Case) -> CaseResult {
    let t = &ctx.table.types[ti];
    let mut res = CaseResult::default();
    let Input::Value(v) = &case.input else { return res };
    let Some(twin) = ctx.batch.descs[t.desc].twin else { return res };
    let Some(tj) = ctx.type_index(twin, &t.name) else { return res };
    let Ok(e) = r.encode(&t.name, v) else { return res };
    ctx.note(ti, "enc", v.to_string().as_bytes());
    let a = (t.enc)(v, &[]);
    let b = (ctx.table.types[tj].enc)(v, &[]);
    match (&a.to_vec, &b.to_vec) {
        (Out::Ok(x), Out::Ok(y)) => {
            if x.len() != y.len() {
                res.fails.push(fail("encode", "twin-length-differs", format!("{} vs {}", hex(x), hex(y))));
            } else if x.len() == e.bytes.len() {
                // chunk boundaries only (not the reference octets)
                let mut want = x.clone();
                for c in &e.layout {
                    if c.swaps() && c.len > 1 {
                        want[c.off..c.off + c.len].reverse();
                    }
                }
                if &want != y {
                    res.fails.push(fail("encode", "twin-not-chunkwise-reversal", format!("this {} twin {} expected {}", hex(x), hex(y), hex(&want))));
                }
                res.nontrivial = e.layout.iter().any(|c| c.swaps() && c.len > 1);
            } else {
                res.events.insert("length-differs-from-reference".into());
            }
            res.outcome = "both-ok".into();
        }
        (x, y) => {
            if x.kind() != y.kind() {
                res.fails.push(fail("encode", "twin-verdict-differs", format!("{} vs {}", out_brief(x), out_brief(y))));
            }
            res.outcome = "not-ok".into();
        }
    }
    res.events.extend(e.events);
    res
}

/// C11 (c): the module produced by the pdl_derive attribute macro behaves like the module
/// included from the command-line tool's output, on every input.
fn check_c11(ctx: &Ctx, ti: usize, _r: &Ref, case: &Case) -> CaseResult {
    let t = &ctx.table.types[ti];
    let mut res = CaseResult::default();
    let Some(twin) = ctx.batch.descs[t.desc].twin else { return res };
    let Some(tj) = ctx.type_index(twin, &t.name) else {
        res.fails.push(fail("derive", "type-missing-in-derive-module", t.name.clone()));
        return res;
    };
    let u = &ctx.table.types[tj];
    match &case.input {
        Input::Bytes(b) => {
            ctx.note(ti, "dec", b);
            let mut a = (t.dec)(b);
            let mut d = (u.dec)(b);
            a.alloc = 0;
            d.alloc = 0;
            let (ja, jd) = (serde_json::to_string(&a).unwrap_or_default(), serde_json::to_string(&d).unwrap_or_default());
            if ja != jd {
                res.fails.push(fail("decode", "derive-differs-from-cli", format!("cli {ja} derive {jd}")));
            }
            res.outcome = format!("dec:{}", a.decode.kind());
            res.nontrivial = a.decode.is_ok();
        }
        Input::Value(v) => {
            ctx.note(ti, "enc", v.to_string().as_bytes());
            let a = (t.enc)(v, &[1, 2, 3]);
            let d = (u.enc)(v, &[1, 2, 3]);
            let (ja, jd) = (serde_json::to_string(&a).unwrap_or_default(), serde_json::to_string(&d).unwrap_or_default());
            if ja != jd {
                res.fails.push(fail("encode", "derive-differs-from-cli", format!("cli {ja} derive {jd}")));
            }
            res.outcome = format!("enc:{}", a.to_vec.kind());
            res.nontrivial = true;
        }
        _ => {}
    }
    res
}

pub fn check_case(ctx: &Ctx, ti: usize, r: &Ref, case: &Case) -> CaseResult {
    match ctx.prop.as_str() {
        "C11" => check_c11(ctx, ti, r, case),
        "C01" => check_c01(ctx, ti, r, case),
        "C02" => check_c02(ctx, ti, r, case),
        "C03" => check_c03(ctx, ti, r, case),
        "C04" => check_c04(ctx, ti, r, case),
        "C05" => check_c05(ctx, ti, r, case),
        "C06" => check_c06(ctx, ti, r, case),
        "C17" => check_c17(ctx, ti, r, case),
        "C18" => check_c18(ctx, ti, r, case),
        _ => CaseResult::default(),
    }
}

fn input_json(i: &Input) -> Value {
    match i {
        Input::Bytes(b) => json!({ "hex": hex(b) }),
        Input::Value(v) => json!({ "json": v }),
        Input::TypedValue(t, v) => json!({ "type": t, "json": v }),
    }
}

pub fn input_from_json(v: &Value) -> Option<Input> {
    if let Some(h) = v.get("hex").and_then(|h| h.as_str()) {
        return Some(Input::Bytes(unhex(h)));
    }
    if let (Some(t), Some(j)) = (v.get("type").and_then(|t| t.as_str()), v.get("json")) {
        return Some(Input::TypedValue(t.to_string(), j.clone()));
    }
    v.get("json").map(|j| Input::Value(j.clone()))
}

fn cases_per_type(prop: &str, thorough: bool) -> u32 {
    let base = match prop {
        "C01" | "C04" => 1500,
        "C18" => 800,
        "C05" => 600,
        "C06" => 800,
        _ => 400,
    };
    if thorough {
        base * 10
    } else {
        base
    }
}

fn applicable(ctx: &Ctx, ti: usize, r: &Ref) -> bool {
    let t = &ctx.table.types[ti];
    match ctx.prop.as_str() {
        "C02" => {
            // round-trippable class: the type, used as a whole packet, must be rt-when-last; also every
            // ancestor's view is implied by construction
            rt_class(r, &t.name, 0).1
        }
        "C06" => !r.d.descendants_of(&t.name).is_empty(),
        "C17" => ctx.batch.descs[t.desc].twin.is_some(),
        "C11" => ctx.batch.descs[t.desc].twin.is_some() && ctx.batch.descs[t.desc].origin != "derive",
        _ => true,
    }
}

/// Run the property over this shard's types.
pub fn run_types(ctx: &Ctx, acc: &mut Acc) {
    let prop = ctx.prop.clone();
    let mut descs_seen = BTreeSet::new();
    for ti in 0..ctx.table.types.len() {
        if ti % ctx.shard.1 != ctx.shard.0 {
            continue;
        }
        let t = &ctx.table.types[ti];
        let bd = &ctx.batch.descs[t.desc];
        let r = Ref::new(&bd.desc);
        if !applicable(ctx, ti, &r) {
            acc.skip("type-outside-property-domain");
            continue;
        }
        acc.p.types += 1;
        if descs_seen.insert(t.desc) {
            acc.p.programs += 1;
            for s in &bd.strata {
                *acc.p.strata.entry(s.clone()).or_default() += 1;
            }
        }
        let tags = type_tags(&r, &t.name);
        let cases = cases_per_type(&prop, ctx.thorough);
        let tag = format!("{prop}/{}/{}", bd.idx, t.name);
        let acc_cell = std::cell::RefCell::new(&mut *acc);
        let failed = std::cell::Cell::new(false);
        let failure = run_streams(ctx.seed, &tag, cases, STREAM_LEN, |st| {
            let mut s = Src::new(st);
            let Some(case) = gen_case(&prop, &r, &t.name, &mut s) else {
                acc_cell.borrow_mut().skip("no-encodable-value");
                return Ok(());
            };
            let res = check_case(ctx, ti, &r, &case);
            let mut acc = acc_cell.borrow_mut();
            acc.frozen = failed.get();
            acc.eval(&case.label, &res.outcome);
            if res.nontrivial {
                let key = input_json(&case.input).to_string();
                let h = fnv(&[tag.as_bytes(), key.as_bytes()]);
                acc.nontrivial(h, || json!({"description": bd.text, "type": t.name, "input": input_json(&case.input), "class": case.label, "outcome": res.outcome}));
            }
            let mut all = tags.clone();
            all.extend(res.events.iter().map(|e| format!("event:{e}")));
            for f in &res.fails {
                let mut all = all.clone();
                all.extend(f.events.iter().map(|e| if e.starts_with("child:") { e.clone() } else { format!("event:{e}") }));
                match ctx.kf.matches(&prop, &f.op, &f.outcome, &all) {
                    Some(k) => acc.known(&k.id),
                    None => {
                        failed.set(true);
                        return Err(format!("{}: {} {}", f.op, f.outcome, f.detail));
                    }
                }
            }
            Ok(())
        });
        acc.frozen = false;
        if let Some(f) = failure {
            // rebuild the minimal case and record it
            let mut s = Src::new(&f.stream);
            if let Some(case) = gen_case(&prop, &r, &t.name, &mut s) {
                let res = check_case(ctx, ti, &r, &case);
                let mut all = tags.clone();
                all.extend(res.events.iter().map(|e| format!("event:{e}")));
                let with = |x: &Fail| {
                    let mut a = all.clone();
                    a.extend(x.events.iter().map(|e| if e.starts_with("child:") { e.clone() } else { format!("event:{e}") }));
                    a
                };
                let bad: Vec<&Fail> = res.fails.iter().filter(|x| ctx.kf.matches(&prop, &x.op, &x.outcome, &with(x)).is_none()).collect();
                let first = bad.first().map(|x| (*x).clone()).unwrap_or(Fail { op: "?".into(), outcome: f.message.clone(), detail: String::new(), events: Events::new() });
                acc.p.violations.push(json!({
                    "property": prop, "seed": ctx.seed, "tier": if ctx.thorough {"thorough"} else {"quick"},
                    "profile": bd.profile, "pdl": bd.text, "model": bd.desc, "type": t.name,
                    "op": first.op, "input": input_json(&case.input), "class": case.label,
                    "observed": first.outcome, "detail": first.detail,
                    "tags": with(&first).iter().cloned().collect::<Vec<_>>(),
                    "signature": format!("{}|{}|{}", prop, first.op, first.outcome),
                }));
            } else {
                acc.p.violations.push(json!({"property": prop, "seed": ctx.seed, "pdl": bd.text, "type": t.name, "observed": f.message}));
            }
        }
    }
}

/// Re-execute one recorded case (replay files and committed findings).  Returns the failures.
pub fn replay_case(ctx: &Ctx, ty: &str, input: &Input, label: &str, expect: Option<EncErr>) -> (Vec<Fail>, BTreeSet<String>) {
    let Some(ti) = ctx.table.types.iter().position(|t| t.name == ty) else { return (vec![fail("replay", "type-not-in-harness", ty)], BTreeSet::new()) };
    let t = &ctx.table.types[ti];
    let bd = &ctx.batch.descs[t.desc];
    let r = Ref::new(&bd.desc);
    // a recorded value that the reference encoder refuses is an out-of-range case (C05): expect that error
    let expect = expect.or_else(|| match input {
        Input::Value(v) => r.encode(ty, v).err().filter(|e| !matches!(e, EncErr::BadValue(_))),
        _ => None,
    });
    let case = Case { input: input.clone(), label: label.to_string(), single_fault: label == "prefix" || label == "ext" || label.starts_with("fault:"), expect_err: expect };
    let res = check_case(ctx, ti, &r, &case);
    let mut all = type_tags(&r, ty);
    all.extend(res.events.iter().map(|e| format!("event:{e}")));
    (res.fails, all)
}

//! Decoding of libFuzzer inputs into description texts (shared by /verif/fuzz and the C10 check).

pub const VOCAB: &[&str] = &[
    "little_endian_packets", "big_endian_packets", "enum", "packet", "struct", "group", "checksum", "custom_field", "test", "_size_", "_count_", "_elementsize_", "_payload_", "_body_", "_fixed_", "_reserved_", "_padding_",
    "_checksum_start_", "if", "{", "}", "(", ")", "[", "]", ":", ",", "=", "..", "+", "A", "B", "C", "x", "y", "z", "Foo", "Bar", "0", "1", "2", "3", "7", "8", "9", "15", "16", "24", "32", "63", "64", "65", "0x10", "0XFF", "255", "256",
    "18446744073709551615", "18446744073709551616", "\"s\"", "/*c*/", "//c\n", "\n",
];

/// octets -> choice stream: two octets give the upper half of one u32 draw
pub fn stream_of(rest: &[u8]) -> Vec<u32> {
    let mut v: Vec<u32> = rest.chunks(2).map(|c| ((c[0] as u32) << 24) | ((*c.get(1).unwrap_or(&0) as u32) << 16)).collect();
    v.resize(v.len().max(1300), 0);
    v
}

pub fn text_of(data: &[u8]) -> String {
    match data.split_first() {
        Some((h, rest)) if h & 3 == 1 => {
            let mut s = String::new();
            for b in rest {
                s.push_str(VOCAB[*b as usize % VOCAB.len()]);
                s.push(' ');
            }
            s
        }
        // semantically absurd but syntactically valid AST, printed
        Some((h, rest)) if h & 3 == 2 => crate::print::plain(&crate::gen::gen_absurd(&stream_of(rest), h & 4 != 0)),
        // well-formed description of the widest profile (stratum from the header octet), printed
        Some((h, rest)) if h & 3 == 3 => {
            let (d, _) = crate::gen::gen_desc(&stream_of(rest), &crate::gen::Profile::front_end(), Some((*h >> 3) as usize), h & 4 != 0);
            crate::print::plain(&d)
        }
        Some((_, rest)) => String::from_utf8_lossy(rest).into_owned(),
        None => String::new(),
    }
}


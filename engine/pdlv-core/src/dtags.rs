//! Description-level feature tags (vocabulary of known-finding triggers for C10 and the
//! non-Rust harnesses).  Computed from the model only.
use crate::model::*;
use std::collections::BTreeSet;

pub fn desc_tags(d: &Desc) -> BTreeSet<String> {
    let mut t = BTreeSet::new();
    let pos = |id: &str| d.decls.iter().position(|x| x.id() == id);
    for (di, decl) in d.decls.iter().enumerate() {
        match decl {
            Decl::Enum { width, tags, .. } => {
                if !matches!(tags.first(), Some(Tag::Value { .. })) {
                    t.insert("enum.first-tag-not-value".into());
                }
                if *width == 1 {
                    t.insert("enum.w=1".into());
                }
                if *width > 31 {
                    t.insert("enum.w>31".into());
                }
                if tags.iter().any(|x| matches!(x, Tag::Range { .. })) {
                    t.insert("enum.range".into());
                }
            }
            Decl::Record { id, packet, parent, fields, .. } => {
                if !*packet && parent.is_some() {
                    t.insert("struct.inherit".into());
                }
                let Ok(fl) = d.flat(id) else { continue };
                let level = fl.last();
                if level.fields.is_empty() {
                    t.insert("record.no-fields".into());
                }
                let closed_enums = level
                    .fields
                    .iter()
                    .filter(|f| match &f.k {
                        FK::Enum { ty, .. } | FK::Fixed { enum_ty: Some(ty), .. } => d.enum_tags(ty).map(|(_, tg)| !tg.iter().any(|x| matches!(x, Tag::Other { .. }))).unwrap_or(false),
                        _ => false,
                    })
                    .count();
                if closed_enums >= 2 {
                    t.insert("record.closed-enums>=2".into());
                }
                let has_psize = |l: &Level| l.fields.iter().any(|f| matches!(&f.k, FK::Size { target, .. } if target.starts_with('_')));
                if parent.is_some() && has_psize(level) && fl.levels[..fl.levels.len() - 1].iter().any(has_psize) {
                    t.insert("child.payload-size-again".into());
                }
                for f in &level.fields {
                    match &f.k {
                        FK::Array { elem: Elem::Ty(ty), count: None, .. } => {
                            if matches!(d.get(ty), Some(Decl::Record { .. })) && pos(ty).map(|p| p > di).unwrap_or(false) {
                                t.insert("fwd-struct-array".into());
                            }
                        }
                        FK::Array { elem: Elem::Bits(w), .. } if ![8, 16, 32, 64].contains(w) => {
                            t.insert("array.elem=bits-odd".into());
                        }
                        FK::Size { w: 1, .. } | FK::Count { w: 1, .. } | FK::Fixed { w: 1, .. } | FK::Reserved { w: 1 } => {
                            t.insert("bits.w=1:non-scalar".into());
                        }
                        FK::Fixed { w, .. } if *w > 31 => {
                            t.insert("fixed.w>31".into());
                        }
                        _ => {}
                    }
                }
                let _ = (packet, fields);
            }
            _ => {}
        }
    }
    t
}

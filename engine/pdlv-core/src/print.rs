//! Model -> PDL text.  The printer produces a token list with node markers; a
//! layout turns it into text.  `plain` is the canonical layout used for the
//! compiled harnesses; `random_layout` (C09, C12) chooses separators, comments
//! and literal spellings from a choice stream and records byte spans.
use crate::choice::Src;
use crate::model::*;

#[derive(Clone, Debug, PartialEq, Eq)]
pub enum TK {
    /// keyword that the grammar requires to be followed by a whitespace char
    KwSpace,
    /// any other fixed word (`_size_`, `if`, ..), or identifier
    Word,
    Int(u64),
    /// `+n` size modifier (atomic)
    Modifier(u64),
    Punct,
    Str,
}

#[derive(Clone, Debug)]
pub struct Tok {
    pub k: TK,
    pub text: String,
}

#[derive(Clone, Debug, PartialEq, Eq)]
pub enum NK {
    Endianness,
    Decl,
    Field,
    Tag,
    /// value tag nested in a range
    SubTag,
    Constraint,
    /// `if` constraint of an optional field
    Cond,
}

#[derive(Clone, Debug)]
pub struct Node {
    pub k: NK,
    /// e.g. `decl:Foo`, `decl:Foo/field:3`, `decl:E/tag:1/sub:0`
    pub path: String,
    pub first: usize,
    pub last: usize,
}

#[derive(Clone, Debug, Default)]
pub struct Tokens {
    pub toks: Vec<Tok>,
    pub nodes: Vec<Node>,
}

impl Tokens {
    fn push(&mut self, k: TK, s: &str) {
        self.toks.push(Tok { k, text: s.to_string() });
    }
    fn kw(&mut self, s: &str) {
        self.push(TK::KwSpace, s)
    }
    fn w(&mut self, s: &str) {
        self.push(TK::Word, s)
    }
    fn p(&mut self, s: &str) {
        self.push(TK::Punct, s)
    }
    fn int(&mut self, v: u64) {
        self.toks.push(Tok { k: TK::Int(v), text: v.to_string() })
    }
    fn node(&mut self, k: NK, path: String, first: usize) {
        let last = self.toks.len() - 1;
        self.nodes.push(Node { k, path, first, last });
    }
}

fn cons_list(t: &mut Tokens, cons: &[Cons], path: &str) {
    for (i, c) in cons.iter().enumerate() {
        if i > 0 {
            t.p(",");
        }
        let s = t.toks.len();
        t.w(&c.id);
        t.p("=");
        match &c.v {
            Cv::Int(v) => t.int(*v),
            Cv::Tag(x) => t.w(x),
        }
        t.node(NK::Constraint, format!("{path}/c{i}"), s);
    }
}

fn field(t: &mut Tokens, f: &Field, path: &str) {
    let s = t.toks.len();
    match &f.d {
        FieldDesc::Scalar { id, w } => {
            t.w(id);
            t.p(":");
            t.int(*w as u64);
        }
        FieldDesc::Typedef { id, ty } => {
            t.w(id);
            t.p(":");
            t.w(ty);
        }
        FieldDesc::Array { id, elem, count, modifier } => {
            t.w(id);
            t.p(":");
            match elem {
                Elem::Bits(w) => t.int(*w as u64),
                Elem::Ty(x) => t.w(x),
            }
            t.p("[");
            if let Some(c) = count {
                t.int(*c);
            } else if let Some(m) = modifier {
                t.toks.push(Tok { k: TK::Modifier(*m), text: format!("+{m}") });
            }
            t.p("]");
        }
        FieldDesc::Size { target, w } | FieldDesc::Count { target, w } | FieldDesc::ElemSize { target, w } => {
            t.w(match &f.d {
                FieldDesc::Size { .. } => "_size_",
                FieldDesc::Count { .. } => "_count_",
                _ => "_elementsize_",
            });
            t.p("(");
            t.w(target);
            t.p(")");
            t.p(":");
            t.int(*w as u64);
        }
        FieldDesc::Payload { modifier } => {
            t.w("_payload_");
            if let Some(m) = modifier {
                t.p(":");
                t.p("[");
                t.toks.push(Tok { k: TK::Modifier(*m), text: format!("+{m}") });
                t.p("]");
            }
        }
        FieldDesc::Body => t.w("_body_"),
        FieldDesc::FixedScalar { w, v } => {
            t.w("_fixed_");
            t.p("=");
            t.int(*v);
            t.p(":");
            t.int(*w as u64);
        }
        FieldDesc::FixedEnum { ty, tag } => {
            t.w("_fixed_");
            t.p("=");
            t.w(tag);
            t.p(":");
            t.w(ty);
        }
        FieldDesc::Reserved { w } => {
            t.w("_reserved_");
            t.p(":");
            t.int(*w as u64);
        }
        FieldDesc::Padding { n } => {
            t.w("_padding_");
            t.p("[");
            t.int(*n);
            t.p("]");
        }
        FieldDesc::Group { id, cons } => {
            t.w(id);
            if !cons.is_empty() {
                t.p("{");
                cons_list(t, cons, path);
                t.p("}");
            }
        }
        FieldDesc::Checksum { id } => {
            t.w("_checksum_start_");
            t.p("(");
            t.w(id);
            t.p(")");
        }
    }
    if let Some((flag, v)) = &f.cond {
        t.w("if");
        let cs = t.toks.len();
        t.w(flag);
        t.p("=");
        t.int(*v);
        t.node(NK::Cond, format!("{path}/cond"), cs);
    }
    t.node(NK::Field, path.to_string(), s);
}

fn fields(t: &mut Tokens, fs: &[Field], path: &str) {
    t.p("{");
    for (i, f) in fs.iter().enumerate() {
        if i > 0 {
            t.p(",");
        }
        field(t, f, &format!("{path}/f{i}"));
    }
    t.p("}");
}

pub fn tokens(d: &Desc) -> Tokens {
    let mut t = Tokens::default();
    t.kw(if d.big { "big_endian_packets" } else { "little_endian_packets" });
    t.node(NK::Endianness, "endianness".into(), 0);
    for (di, decl) in d.decls.iter().enumerate() {
        let s = t.toks.len();
        let path = format!("d{di}");
        match decl {
            Decl::Enum { id, width, tags } => {
                t.kw("enum");
                t.w(id);
                t.p(":");
                t.int(*width as u64);
                t.p("{");
                for (i, tag) in tags.iter().enumerate() {
                    if i > 0 {
                        t.p(",");
                    }
                    let ts = t.toks.len();
                    match tag {
                        Tag::Value { id, v } => {
                            t.w(id);
                            t.p("=");
                            t.int(*v);
                        }
                        Tag::Range { id, lo, hi, tags } => {
                            t.w(id);
                            t.p("=");
                            t.int(*lo);
                            t.p("..");
                            t.int(*hi);
                            if !tags.is_empty() {
                                t.p("{");
                                for (j, (sid, sv)) in tags.iter().enumerate() {
                                    if j > 0 {
                                        t.p(",");
                                    }
                                    let ss = t.toks.len();
                                    t.w(sid);
                                    t.p("=");
                                    t.int(*sv);
                                    t.node(NK::SubTag, format!("{path}/t{i}/s{j}"), ss);
                                }
                                t.p("}");
                            }
                        }
                        Tag::Other { id } => {
                            t.w(id);
                            t.p("=");
                            t.p("..");
                        }
                    }
                    t.node(NK::Tag, format!("{path}/t{i}"), ts);
                }
                t.p("}");
            }
            Decl::Custom { id, width } => {
                t.kw("custom_field");
                t.w(id);
                if let Some(w) = width {
                    t.p(":");
                    t.int(*w as u64);
                }
                t.push(TK::Str, &format!("\"{}\"", id.to_lowercase()));
            }
            Decl::Checksum { id, width, function } => {
                t.kw("checksum");
                t.w(id);
                t.p(":");
                t.int(*width as u64);
                t.push(TK::Str, &format!("\"{function}\""));
            }
            Decl::Group { id, fields: fs } => {
                t.kw("group");
                t.w(id);
                fields(&mut t, fs, &path);
            }
            Decl::Record { id, packet, parent, cons, fields: fs } => {
                t.kw(if *packet { "packet" } else { "struct" });
                t.w(id);
                if let Some(p) = parent {
                    t.p(":");
                    t.w(p);
                }
                if !cons.is_empty() {
                    t.p("(");
                    cons_list(&mut t, cons, &path);
                    t.p(")");
                }
                fields(&mut t, fs, &path);
            }
        }
        t.node(NK::Decl, path, s);
    }
    t
}

/// Canonical layout: one declaration per line, single spaces.
pub fn plain(d: &Desc) -> String {
    let t = tokens(d);
    let mut out = String::new();
    let decl_starts: std::collections::BTreeSet<usize> = t.nodes.iter().filter(|n| n.k == NK::Decl).map(|n| n.first).collect();
    for (i, tok) in t.toks.iter().enumerate() {
        if decl_starts.contains(&i) {
            out.push('\n');
        } else if i > 0 {
            out.push(' ');
        }
        out.push_str(&tok.text);
    }
    out.push('\n');
    out
}

#[derive(Clone, Debug)]
pub struct Laid {
    pub text: String,
    /// byte span [start,end) of each token
    pub spans: Vec<(usize, usize)>,
    /// (start, end, text) of each comment
    pub comments: Vec<(usize, usize, String)>,
    pub hex_literals: usize,
    pub nonspace_seps: usize,
}

fn is_wordish(t: &Tok) -> bool {
    matches!(t.k, TK::KwSpace | TK::Word | TK::Int(_))
}

/// Randomised concrete syntax.  `strict_kw`: keep a literal whitespace char
/// right after keywords (the grammar's `ENUM = @{ "enum" ~ WHITESPACE }`).
pub fn random_layout(t: &Tokens, s: &mut Src, trailing_commas: bool) -> Laid {
    let mut out = String::new();
    let mut spans = vec![];
    let mut comments = vec![];
    let mut hex = 0;
    let mut nonspace = 0;
    // leading trivia
    sep(&mut out, s, false, false, &mut comments, &mut nonspace);
    let n = t.toks.len();
    for (i, tok) in t.toks.iter().enumerate() {
        // optional trailing comma before a closing brace of a list
        if trailing_commas && tok.text == "}" && i > 0 && t.toks[i - 1].text != "{" && t.toks[i - 1].text != "," && s.below(4) == 0 {
            // only legal in field lists, enum tag lists and value lists; constraint lists
            // `G { a = 1 }` do not allow it: those are closed by `}` after an Int/Word following `=`
            // inside a group field; we detect by scanning back to the matching `{`
            if trailing_comma_legal(t, i) {
                out.push(',');
                sep(&mut out, s, false, false, &mut comments, &mut nonspace);
            }
        }
        let start = out.len();
        match &tok.k {
            TK::Int(v) => {
                let (txt, is_hex) = spell_int(*v, s);
                if is_hex {
                    hex += 1;
                }
                out.push_str(&txt);
            }
            TK::Modifier(m) => {
                // "+" ~ intvalue, atomic; the AST keeps the modifier as written (a string), so it is
                // spelled canonically here
                out.push('+');
                out.push_str(&m.to_string());
            }
            _ => out.push_str(&tok.text),
        }
        spans.push((start, out.len()));
        if i + 1 < n {
            let next = &t.toks[i + 1];
            let must_ws = tok.k == TK::KwSpace;
            let need_sep = is_wordish(tok) && is_wordish(next) || (tok.text == ".." && matches!(next.k, TK::Int(_)) && false);
            sep(&mut out, s, must_ws, need_sep, &mut comments, &mut nonspace);
        } else if tok.k == TK::KwSpace {
            out.push('\n');
        }
    }
    sep(&mut out, s, false, false, &mut comments, &mut nonspace);
    Laid { text: out, spans, comments, hex_literals: hex, nonspace_seps: nonspace }
}

fn trailing_comma_legal(t: &Tokens, close: usize) -> bool {
    // find matching '{'
    let mut depth = 0i32;
    let mut j = close;
    while j > 0 {
        j -= 1;
        match t.toks[j].text.as_str() {
            "}" => depth += 1,
            "{" => {
                if depth == 0 {
                    break;
                }
                depth -= 1;
            }
            _ => {}
        }
    }
    // the '{' opens a constraint list iff it directly follows a group field identifier,
    // i.e. the token before is a Word that is itself preceded by `{` or `,` (field position)
    // and the token after `{` is followed by `=`.  Field lists and tag lists also start
    // with Word, so distinguish by what precedes the Word before `{`:
    //   decl:   KwSpace Word {            -> field list / tag list (after `: int` for enums)
    //   range:  Int .. Int {              -> value list
    //   group:  [{ ,] Word {              -> constraint list
    if j == 0 {
        return false;
    }
    let before = &t.toks[j - 1];
    match before.k {
        TK::Int(_) => true, // enum `: w {` or range `lo..hi {`
        TK::Punct => before.text == ")", // `packet X : Y (c = 1) {`
        TK::Word => {
            if j < 2 {
                return false;
            }
            let b2 = &t.toks[j - 2];
            // `packet Id {`, `packet Id : Parent {`
            b2.k == TK::KwSpace || b2.text == ":"
        }
        _ => false,
    }
}

fn spell_int(v: u64, s: &mut Src) -> (String, bool) {
    match s.below(7) {
        0 | 1 => (v.to_string(), false),
        6 => (format!("0x00{v:x}"), true),
        2 => (format!("0x{v:x}"), true),
        3 => (format!("0x{v:X}"), true),
        4 => (format!("0X{:x}", v), true),
        _ => (format!("00{v}"), false),
    }
}

fn sep(out: &mut String, s: &mut Src, must_ws_first: bool, need_sep: bool, comments: &mut Vec<(usize, usize, String)>, nonspace: &mut usize) {
    let ws = [" ", "\t", "\n", "\r\n", "\r", "  ", "\n\n"];
    if must_ws_first {
        let c = s.below(4);
        out.push_str(["\u{20}", "\t", "\n", "\r"][c]);
        if c != 0 {
            *nonspace += 1;
        }
    }
    let n = match s.below(8) {
        0..=3 => 0,
        4 | 5 => 1,
        6 => 2,
        _ => 3,
    };
    let mut emitted = must_ws_first;
    for _ in 0..n {
        match s.below(6) {
            0..=2 => {
                let c = s.below(ws.len());
                out.push_str(ws[c]);
                if c != 0 && c != 5 {
                    *nonspace += 1;
                }
            }
            3 | 4 => {
                let body = ["", " c ", "x:8,", "*", " enum E : 8 { A = 1 } ", "/ *", "\"", "é"][s.below(8)];
                let st = out.len();
                out.push_str("/*");
                out.push_str(body);
                out.push_str("*/");
                comments.push((st, out.len(), format!("/*{body}*/")));
                *nonspace += 1;
            }
            _ => {
                let body = ["", " note", "/", " packet P {}", "*/", "\t\"x"][s.below(6)];
                let st = out.len();
                out.push_str("//");
                out.push_str(body);
                comments.push((st, out.len(), format!("//{body}")));
                out.push('\n');
                *nonspace += 1;
            }
        }
        emitted = true;
    }
    if need_sep && !emitted {
        out.push(' ');
    }
}

//! `pdlv check C01|C02|C03|C04|C05|C06|C15|C17|C18`
use crate::report::*;
use crate::rustharness::*;
use serde_json::json;

pub fn rule(prop: &str) -> &'static str {
    match prop {
        "C01" => "descriptions drawn from the rust/rust-rt profiles (LE/BE twins, strata cycled); per type byte strings from the choice stream: reference encodings, prefixes, extensions, targeted mutants of size/count/element-size/flag/enum/fixed bit-fields via the reference layout map, bit flips, chunk overwrites, random strings. Oracle: no panic in decode/decode_full/decode_mut/specialize/TryFrom, remainder is a suffix by pointer identity, decode_mut slice law, allocation <= 1 MiB + 256*len. Non-trivial: decoder consumed >= 1 octet or failed beyond the first length guard; distinct by (type, input).",
        "C02" => "types of the batch whose every variable-length part is delimited or last (structural predicate on the model); in-range values (boundary-biased scalars, enum tags/range ends/defaults, empty/one/many/max arrays, all optional patterns). Oracle: encode succeeds, decode_full(encode(v)) == v by the generated PartialEq, and the same bytes decoded as every ancestor then converted (TryFrom) and specialized down the path give v. Non-trivial: value has a non-empty array, non-zero scalar or nested struct; distinct by (type, value).",
        "C03" => "all types of the batch; in-range values; oracle: hex(encode_to_vec(v)) equals the independent reference model's encoding, both fail together. Non-trivial: >= 2 octets and a multi-field or multi-octet bit-field group or a size/count field; distinct by (type, value).",
        "C04" => "all types; byte strings as for C01; oracle: decode_full accepts iff the reference decoder accepts, values equal, re-encoding equals the reference canonical image; for single-fault inputs (prefix, extension, flipped fixed/enum bit-field) the DecodeError variant equals the reference's. Non-trivial: accepted, or rejected by something other than the first length guard; distinct by (type, input).",
        "C05" => "all types; in-range values and values with exactly one injected fault (scalar 2^w / backing max, array one element beyond its size field, count field or padding, payload beyond its size field, unequal element sizes, contradictory optional flags), each confirmed by the reference. Oracle: no panic; in-range => Ok and len == encoded_len(); fault => the matching EncodeError, never Ok. Non-trivial: fault cases and in-range values with a variable part; distinct by (type, value).",
        "C06" => "types with descendants; parent values decoded from byte strings (C01 classes, incl. encodings of children) and child values. Oracle: reference specialisation model (admissible children by accumulated constraints and constant sizes), child value equals the reference decoding, Err only if an admissible child fails to parse, None only if no discriminated child matches and parses; TryFrom down agrees with the reference (ConstraintValueError iff a constraint is violated); TryFrom up keeps constraint values, encodes to the same bytes, converts back. Non-trivial: some child admissible, or child-value laws; distinct by (type, input).",
        "C15" => "Rust: every enum of the batch (enum strata forced); all integers of the backing type for w <= 16 (exhaustive), else 0,1,2, +-2 around every tag value, range bound, 2^w-1, 2^w, backing max, plus uniform draws. Oracle: reference classifier (named / in-range / default / invalid incl. >= 2^w), variant name, back-conversion, every widening From, default(). Python (18 / 120 enum-stratum descriptions): E.from_int(x) returns the member for top-level value tags, the bare integer for range / default / nested-tag values, raises EnumValueError otherwise (exhaustive for w <= 12). C++: IsValid<E>(x) for closed enums equals the classifier's verdict, including values >= 2^w that the parameter type can hold. Non-trivial: x within 2 of a declared bound or >= 2^w; distinct by (backend, enum, x).",
        "C17" => "LE/BE twin descriptions; in-range values; oracle: both encodings have equal length and the BE bytes are the LE bytes with every multi-octet swappable chunk (bit-field group, scalar/enum element, optional scalar/enum, sized custom field) reversed, using only the chunk boundaries of the reference layout map. Run on the compiled generated Rust, and on the Python (CPython driver), C++ (compiled-in builder values, packet_runtime.h) and Java (reflection driver) serializers generated for twin descriptions of their profiles. Non-trivial: >= 1 chunk of >= 2 octets; distinct by (backend, type, value).",
        "C18" => "all types; byte strings and values (incl. failing ones); oracle: decode_full == decode mapped by remainder emptiness (TrailingBytesError), decode_mut advances exactly / untouched on error, encode_to_vec == encode_to_bytes == encode(Vec) == encode(BytesMut), encoding into a pre-filled buffer appends. Non-trivial: non-empty remainder, failing op, or non-empty prefix; distinct by (type, input).",
        _ => "",
    }
}

pub fn run(prop: &str, tier: &str, seed: u64) -> i32 {
    let t0 = std::time::Instant::now();
    let (kf, kf_path) = load_kf();
    // committed replays of known findings for this property are compiled into the batch
    let mut extra = vec![];
    let mut finding_files = vec![];
    for f in kf.for_property(prop) {
        let path = format!("{VERIF}/{}", f.replay);
        if let Ok(text) = std::fs::read_to_string(&path) {
            if let Ok(v) = serde_json::from_str::<serde_json::Value>(&text) {
                if let Ok(d) = serde_json::from_value::<pdlv_core::model::Desc>(v["model"].clone()) {
                    extra.push((format!("finding:{}", f.id), d, "rust".to_string()));
                    finding_files.push((f.id.clone(), path, v));
                }
            }
        }
    }
    let _ = extra;
    let db = draw_batch(seed, tier, &[]);
    let dropped = db.dropped.len();
    let built = match build(&format!("{tier}-{seed}"), db) {
        Ok(b) => b,
        Err(e) => {
            eprintln!("infrastructure: {e}");
            return 2;
        }
    };
    // known findings: each committed replay is executed in its own one-description harness
    let mut known_reproduced = vec![];
    for (id, path, v) in &finding_files {
        let d: pdlv_core::model::Desc = serde_json::from_value(v["model"].clone()).unwrap();
        let one = DrawnBatch { batch: pdlv_core::harness::Batch { seed, tier: tier.into(), descs: vec![] }, code: vec![], dropped: vec![] };
        let _ = one;
        match build_single(&format!("finding-{id}"), &d) {
            Ok(b1) => match replay(&b1, prop, std::path::Path::new(path), &kf_path) {
                Ok(out) => {
                    let fails = out["failures"].as_array().cloned().unwrap_or_default();
                    if fails.iter().any(|f| f["known"].as_str() == Some(id.as_str())) {
                        known_reproduced.push(id.clone());
                    }
                    for f in fails.iter().filter(|f| f["known"].is_null()) {
                        eprintln!("note: replay of {id} shows an unlisted failure: {f}");
                    }
                }
                Err(e) => eprintln!("note: replay of {id}: {}", e.0),
            },
            Err(e) => eprintln!("note: finding {id} harness: {e}"),
        }
    }
    let mut partial = match run_prop(&built, prop, tier, seed, &kf_path) {
        Ok(p) => p,
        Err(e) => {
            eprintln!("infrastructure: {}", e.0);
            return 2;
        }
    };
    if prop == "C15" {
        // Python from_int and C++ IsValid legs
        let legs = crate::c15x::run_legs(tier, seed, &kf);
        let progs = legs.programs;
        partial.merge(legs);
        partial.notes.push(format!("{progs} descriptions in the Python / C++ legs"));
    }
    if prop == "C17" {
        // the same relation on the serializers generated for Python, C++ and Java
        let legs = crate::c17x::run_legs(tier, seed, &kf);
        let progs = legs.programs;
        partial.merge(legs);
        partial.notes.push(format!("{progs} twin descriptions in the Python / C++ / Java legs"));
    }
    // shards count the descriptions they touch: replace the sum by the number of compiled descriptions
    partial.programs = (built.batch.descs.len() - built.skip.len()) as u64;
    partial.notes.push(format!("{} descriptions dropped before the build (compiler refused them: C10's business), {} dropped by rustc", dropped, built.build_rejects.len()));
    let v = Verdict {
        property: prop.into(),
        tier: tier.into(),
        seed,
        partial,
        rule: rule(prop).into(),
        assumptions: vec![
            "the reference model (calibrated on the 664 expressible canonical vectors) is correct".into(),
            "rustc 1.95, serde and bytes behave as documented; dev profile with overflow checks and debug assertions".into(),
            "non-termination is only observed as a harness death (reported as inconclusive, exit 2)".into(),
        ],
        extra: json!({"dropped_descriptions": dropped, "build_rejects": built.build_rejects.len(), "batch_descriptions": built.batch.descs.len()}),
        wall_s: t0.elapsed().as_secs_f64(),
        known_reproduced,
    };
    finish(v, &kf)
}

/// one-description harness (replays, committed findings)
pub fn build_single(name: &str, d: &pdlv_core::model::Desc) -> Result<Built, String> {
    let text = pdlv_core::print::plain(d);
    let code = compile_rust("d0.pdl", &text)?;
    let bd = pdlv_core::harness::BatchDesc { idx: 0, desc: d.clone(), text, profile: "rust".into(), strata: vec![], twin: None, origin: "replay".into() };
    let db = DrawnBatch { batch: pdlv_core::harness::Batch { seed: 0, tier: "replay".into(), descs: vec![bd] }, code: vec![code], dropped: vec![] };
    build(name, db)
}

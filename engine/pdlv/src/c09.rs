//! C09 - well-formed input is accepted regardless of order and layout; groups behave as inlined.
use crate::compile::*;
use crate::inproc::*;
use crate::report::*;
use pdl_compiler::ast;
use pdlv_core::choice::Src;
use pdlv_core::evidence::{fnv, Acc};
use pdlv_core::gen::*;
use pdlv_core::model::*;
use pdlv_core::print::*;
use serde_json::{json, Value};
use std::collections::BTreeMap;

fn viol(text: &str, op: &str, observed: &str, detail: String, d: &Desc) -> Viol {
    Viol {
        message: format!("{op}: {observed}: {detail}"),
        record: json!({"property": "C09", "op": op, "observed": observed, "detail": detail, "pdl": text, "model": d, "type": Value::Null, "signature": format!("C09|{op}|{observed}")}),
    }
}

/// analyze; Ok(sorted declarations) or Err(sorted codes) or panic message
pub fn analysis(text: &str) -> Result<Result<Vec<ast::Decl>, Vec<String>>, String> {
    let (f, _) = match guarded(|| parse("c09.pdl", text)) {
        Ok(Ok(x)) => x,
        Ok(Err(e)) => return Err(format!("parse error: {e}")),
        Err(p) => return Err(format!("parser panic: {p}")),
    };
    match guarded(|| analyze(&f)) {
        Err(p) => Err(format!("analyzer panic: {p}")),
        Ok(Ok(af)) => {
            let mut ds = af.declarations.clone();
            ds.sort_by(|a, b| a.id().cmp(&b.id()));
            Ok(Ok(ds))
        }
        Ok(Err(dg)) => {
            let mut codes: Vec<String> = dg.diagnostics.iter().filter_map(|d| d.code.clone()).collect();
            codes.sort();
            codes.dedup();
            Ok(Err(codes))
        }
    }
}

/// model-level group inlining: group fields expanded in place, constrained fields become fixed
pub fn inline_groups(d: &Desc) -> Desc {
    fn expand(d: &Desc, fields: &[Field], cons: &BTreeMap<String, Cv>, out: &mut Vec<Field>, depth: usize) {
        for f in fields {
            match &f.d {
                FieldDesc::Group { id, cons: c } if depth < 16 => {
                    if let Some(Decl::Group { fields: gf, .. }) = d.get(id) {
                        let mut m = cons.clone();
                        for x in c {
                            m.insert(x.id.clone(), x.v.clone());
                        }
                        expand(d, gf, &m, out, depth + 1);
                    }
                }
                FieldDesc::Scalar { id, w } => match cons.get(id) {
                    Some(Cv::Int(v)) => out.push(Field::new(FieldDesc::FixedScalar { w: *w, v: *v })),
                    _ => out.push(f.clone()),
                },
                FieldDesc::Typedef { id, ty } => match cons.get(id) {
                    Some(Cv::Tag(t)) => out.push(Field::new(FieldDesc::FixedEnum { ty: ty.clone(), tag: t.clone() })),
                    _ => out.push(f.clone()),
                },
                _ => out.push(f.clone()),
            }
        }
    }
    let mut decls = vec![];
    for decl in &d.decls {
        match decl {
            Decl::Group { .. } => {}
            Decl::Record { id, packet, parent, cons, fields } => {
                let mut out = vec![];
                expand(d, fields, &BTreeMap::new(), &mut out, 0);
                decls.push(Decl::Record { id: id.clone(), packet: *packet, parent: parent.clone(), cons: cons.clone(), fields: out });
            }
            other => decls.push(other.clone()),
        }
    }
    Desc { big: d.big, decls }
}

fn group_depth(d: &Desc) -> (usize, bool) {
    // (max nesting depth of group fields, any constrained group field)
    fn depth(d: &Desc, fields: &[Field], k: usize) -> usize {
        let mut m = 0;
        for f in fields {
            if let FieldDesc::Group { id, .. } = &f.d {
                if let (Some(Decl::Group { fields: gf, .. }), true) = (d.get(id), k < 8) {
                    m = m.max(1 + depth(d, gf, k + 1));
                }
            }
        }
        m
    }
    let mut md = 0;
    let mut cons = false;
    for decl in &d.decls {
        if let Decl::Record { fields, .. } | Decl::Group { fields, .. } = decl {
            if decl.is_record() {
                md = md.max(depth(d, fields, 0));
            }
            cons |= fields.iter().any(|f| matches!(&f.d, FieldDesc::Group { cons, .. } if !cons.is_empty()));
        }
    }
    (md, cons)
}

fn gen_all(text: &str, name: &str) -> Result<Vec<(&'static str, Result<String, String>)>, String> {
    let (f, db) = parse(name, text)?;
    let af = match guarded(|| analyze(&f)) {
        Ok(Ok(af)) => af,
        Ok(Err(_)) => return Err("rejected".into()),
        Err(p) => return Err(format!("analyzer panic: {p}")),
    };
    Ok(vec![
        ("rust", guarded(|| pdl_compiler::backends::rust::generate(&db, &af, &[]))),
        ("python", guarded(|| pdl_compiler::backends::python::generate(&db, &af, None, &[]))),
        ("cxx", guarded(|| pdl_compiler::backends::cxx::generate(&db, &af, Some("ns"), &[], &[], &[]))),
    ])
}

fn permutations(n: usize, s: &mut Src) -> Vec<Vec<usize>> {
    if n <= 5 {
        // all permutations (Heap's algorithm)
        let mut out = vec![];
        let mut a: Vec<usize> = (0..n).collect();
        fn heap(k: usize, a: &mut Vec<usize>, out: &mut Vec<Vec<usize>>) {
            if k <= 1 {
                out.push(a.clone());
                return;
            }
            for i in 0..k {
                heap(k - 1, a, out);
                if k % 2 == 0 {
                    a.swap(i, k - 1);
                } else {
                    a.swap(0, k - 1);
                }
            }
        }
        heap(n, &mut a, &mut out);
        out
    } else {
        let mut out = vec![(0..n).rev().collect::<Vec<_>>()];
        for _ in 0..23 {
            let mut a: Vec<usize> = (0..n).collect();
            for i in (1..n).rev() {
                let j = s.below(i + 1);
                a.swap(i, j);
            }
            out.push(a);
        }
        out
    }
}

pub fn run(tier: &str, seed: u64) -> i32 {
    let t0 = std::time::Instant::now();
    let (kf, _) = crate::rustharness::load_kf();
    let thorough = tier == "thorough";
    let n = if thorough { 240_000 } else { 24_000 };
    std::panic::set_hook(Box::new(|_| {}));
    let mut partial = run_parallel("C09", seed, "C09", n, 1000, |st, acc| {
        let mut s = Src::new(st);
        let big = s.bool();
        let stratum = s.below(N_STRATA);
        let which = s.below(4);
        // (d) needs descriptions inside the three generators' common ground; (a)-(c) use the whole front end
        let profile = if which == 3 { Profile::rust() } else { Profile::front_end() };
        let (d, _) = gen_desc(&st[8..], &profile, Some(stratum), big);
        let text = plain(&d);
        let base = match analysis(&text) {
            Err(p) => return Err(viol(&text, "analyze", "crash", p, &d)),
            Ok(Err(codes)) => return Err(viol(&text, "analyze", "rejects-well-formed", codes.join("+"), &d)),
            Ok(Ok(ds)) => ds,
        };
        let mut es = Src::new(&st[700..]);
        match which {
            0 | 1 => {
                // (b) order independence, for the well-formed description and for an ill-formed twin
                let twin = if which == 1 { crate::c08::apply(es.below(crate::c08::N_OPS), &d, &mut es).filter(|e| !e.legal) } else { None };
                let (subject, expect): (Desc, Result<Vec<ast::Decl>, Vec<String>>) = match &twin {
                    Some(e) => match analysis(&plain(&e.desc)) {
                        Ok(r) => (e.desc.clone(), r),
                        Err(_) => {
                            acc.skip("ill-formed-twin-crashes (C08/C10's business)");
                            return Ok(());
                        }
                    },
                    None => (d.clone(), Ok(base.clone())),
                };
                // forward references present?
                let perms = permutations(subject.decls.len(), &mut es);
                let np = perms.len();
                for p in perms {
                    let pd = Desc { big: subject.big, decls: p.iter().map(|i| subject.decls[*i].clone()).collect() };
                    let pt = plain(&pd);
                    match analysis(&pt) {
                        Err(c) => return Err(viol(&pt, "permute", "crash-under-permutation", c, &pd)),
                        Ok(r) => {
                            if r != expect {
                                let show = |x: &Result<Vec<ast::Decl>, Vec<String>>| match x {
                                    Ok(ds) => format!("accepted, {} declarations", ds.len()),
                                    Err(c) => format!("rejected {}", c.join("+")),
                                };
                                return Err(viol(&pt, "permute", if twin.is_some() { "error-codes-depend-on-order" } else { "analysis-depends-on-order" }, format!("original order: {}; permuted: {}", show(&expect), show(&r)), &pd));
                            }
                        }
                    }
                }
                acc.eval(if twin.is_some() { "order:ill-formed-twin" } else { "order:well-formed" }, &format!("{} permutations agree", if np > 24 { "all<=120" } else { "24-sampled" }));
                acc.nontrivial(fnv(&[text.as_bytes(), &[which as u8]]), || json!({"pdl": text, "relation": "order", "permutations": np, "ill_formed_twin": twin.as_ref().map(|e| e.ctx.clone())}));
            }
            2 => {
                // (c) layout and radix
                let toks = tokens(&d);
                let (f0, _) = parse("c09.pdl", &text).map_err(|e| viol(&text, "parse", "rejects", e, &d))?;
                let mut ns = 0;
                for _ in 0..8 {
                    let tc = es.bool();
                    let laid = random_layout(&toks, &mut es, tc);
                    ns += laid.nonspace_seps + laid.hex_literals;
                    match guarded(|| parse("c09.pdl", &laid.text)) {
                        Ok(Ok((f, _))) => {
                            if f != f0 {
                                return Err(viol(&laid.text, "relayout", "ast-depends-on-layout", String::new(), &d));
                            }
                        }
                        Ok(Err(e)) => return Err(viol(&laid.text, "relayout", "rejects-relayout", e, &d)),
                        Err(p) => return Err(viol(&laid.text, "relayout", "crash", p, &d)),
                    }
                    match analysis(&laid.text) {
                        Ok(Ok(ds)) if ds == base => {}
                        other => return Err(viol(&laid.text, "relayout", "analysis-depends-on-layout", format!("{:?}", other.map(|r| r.map(|d| d.len()))), &d)),
                    }
                }
                acc.eval("layout", "8 re-layouts agree");
                if ns > 0 {
                    acc.nontrivial(fnv(&[text.as_bytes(), b"layout"]), || json!({"pdl": text, "relation": "layout+radix"}));
                }
            }
            _ => {
                // (d) groups behave as inlined
                let groups: Vec<Decl> = d.decls.iter().filter(|x| matches!(x, Decl::Group { .. })).cloned().collect();
                if groups.is_empty() {
                    acc.skip("no-group");
                    return Ok(());
                }
                let mut with = Desc { big: d.big, decls: d.decls.iter().filter(|x| !matches!(x, Decl::Group { .. })).cloned().collect() };
                let inl = inline_groups(&d);
                with.decls.extend(groups);
                let (tw, ti) = (plain(&with), plain(&inl));
                let (aw, ai) = (analysis(&tw), analysis(&ti));
                match (&aw, &ai) {
                    (Ok(Ok(a)), Ok(Ok(b))) if a == b => {}
                    _ => return Err(viol(&tw, "groups", "analysis-differs-from-inlined-form", format!("inlined form:\n{ti}"), &with)),
                }
                match (gen_all(&tw, "g.pdl"), gen_all(&ti, "g.pdl")) {
                    (Ok(a), Ok(b)) => {
                        for ((name, x), (_, y)) in a.iter().zip(b.iter()) {
                            match (x, y) {
                                (Ok(x), Ok(y)) => {
                                    if x != y {
                                        return Err(viol(&tw, "groups", &format!("{name}-code-differs-from-inlined-form"), format!("inlined form:\n{ti}"), &with));
                                    }
                                }
                                (Err(_), Err(_)) => acc.skip(&format!("{name}-generator-refuses-both-forms")),
                                _ => return Err(viol(&tw, "groups", &format!("{name}-generator-crashes-on-one-form"), format!("inlined form:\n{ti}"), &with)),
                            }
                        }
                    }
                    _ => return Err(viol(&tw, "groups", "compile-differs", String::new(), &with)),
                }
                let (depth, cons) = group_depth(&with);
                acc.eval(&format!("groups:depth={depth}{}", if cons { ":constrained" } else { "" }), "same analysis and code");
                if cons || depth >= 2 {
                    acc.nontrivial(fnv(&[tw.as_bytes(), b"groups"]), || json!({"pdl": tw, "relation": "groups-as-inlined", "inlined": ti}));
                }
            }
        }
        Ok(())
    });
    partial.programs = partial.evaluations;
    let v = Verdict {
        property: "C09".into(),
        tier: tier.into(),
        seed,
        partial,
        rule: "well-formed descriptions from the generator (front-end profile; rust profile for the code comparison). Metamorphic relations against the same compiler: (a) every one is accepted; (b) every permutation of the declarations (all for <= 5, 24 sampled beyond) gives the same verdict and the same analyzed declarations (id-sorted, pdl's structural equality), and for an ill-formed twin (one C08 edit) the same sorted set of error codes; (c) 8 token-level re-layouts (separators, comments, literal radix and case, trailing commas) give an equal parsed AST and equal analysis; (d) the description with group declarations and the one with the group fields written inline (constrained ones as _fixed_) analyze to equal declarations and make the Rust, Python and C++ generators emit identical text. Non-trivial: order cases, layouts with a non-space separator or hex literal, groups with a constraint or nesting >= 2; distinct by text and relation.".into(),
        assumptions: vec!["a group field can only constrain fields declared directly in that group (observed analyzer rule; nested constraints are given at the inner group field)".into()],
        extra: json!({}),
        wall_s: t0.elapsed().as_secs_f64(),
        known_reproduced: vec![],
    };
    finish(v, &kf)
}

//! Calibration of the reference model on the (unpinned) canonical vectors.
use pdlv_core::refcodec::*;
use serde_json::Value;

fn sub(exp: &Value, got: &Value) -> bool {
    match (exp, got) {
        (Value::Object(a), Value::Object(b)) => a.iter().all(|(k, v)| b.get(k).map(|g| sub(v, g)).unwrap_or(false)),
        (Value::Array(a), Value::Array(b)) => a.len() == b.len() && a.iter().zip(b).all(|(x, y)| sub(x, y)),
        _ => exp == got,
    }
}

fn unhex(s: &str) -> Vec<u8> {
    (0..s.len() / 2).map(|i| u8::from_str_radix(&s[2 * i..2 * i + 2], 16).unwrap()).collect()
}

pub fn run() -> i32 {
    let dir = "/repo/pdl-compiler/tests/canonical";
    let le = std::fs::read_to_string(format!("{dir}/le_test_file.pdl")).unwrap();
    let mut bad = 0;
    let mut total = 0;
    for (big, vecfile) in [(false, "le_test_vectors.json"), (true, "be_test_vectors.json")] {
        let text = if big { le.replace("little_endian_packets", "big_endian_packets") } else { le.clone() };
        let desc = crate::compile::desc_of_text("canonical.pdl", &text).expect("canonical file parses");
        let r = Ref::new(&desc);
        let vecs: Value = serde_json::from_str(&std::fs::read_to_string(format!("{dir}/{vecfile}")).unwrap()).unwrap();
        let (mut n, mut ok, mut skipped) = (0, 0, 0);
        for x in vecs.as_array().unwrap() {
            let pkt = x["packet"].as_str().unwrap();
            for t in x["tests"].as_array().unwrap() {
                let name = t.get("packet").and_then(|p| p.as_str()).unwrap_or(pkt);
                if ["Checksum", "Custom_Field_VariableSize", "UnsizedCustomField"].iter().any(|k| name.contains(k) || pkt.contains(k)) {
                    skipped += 1;
                    continue;
                }
                n += 1;
                let b = unhex(t["packed"].as_str().unwrap());
                let mut ev = Events::new();
                if let Some(e) = t.get("expected_error").and_then(|e| e.as_str()) {
                    match r.decode(name, &b, true, &mut ev) {
                        Err(k) if k.rust_name() == e => ok += 1,
                        other => {
                            bad += 1;
                            eprintln!("{name} {}: expected {e}, got {:?}", t["packed"], other.map(|x| x.0));
                        }
                    }
                    continue;
                }
                let dec = r.decode(name, &b, true, &mut ev);
                // the vectors list constrained ancestor fields too; the model's value (like the
                // generated Rust struct) does not carry them: check them against the constraint
                let fl = r.flat(name);
                let mut unpacked = t["unpacked"].clone();
                for (k, c) in &fl.cons {
                    if let Some(x) = unpacked.as_object_mut().unwrap().remove(k) {
                        if x.as_u64() != Some(*c) {
                            bad += 1;
                            eprintln!("{name}: constrained field {k} listed as {x}, constraint is {c}");
                        }
                    }
                }
                let enc = r.encode(name, &unpacked);
                match (dec, enc) {
                    (Ok((v, _)), Ok(e)) if sub(&unpacked, &v) && e.bytes == b && e.layout.iter().map(|c| c.len).sum::<usize>() == b.len() => ok += 1,
                    (d, e) => {
                        bad += 1;
                        eprintln!("{name} {}: dec={:?} enc={:?}", t["packed"], d.map(|x| x.0.to_string()), e.map(|x| x.bytes));
                    }
                }
            }
        }
        println!("calibration {}: {ok}/{n} vectors reproduced ({skipped} use checksums/unsized custom fields)", if big { "BE" } else { "LE" });
        total += n;
    }
    if bad > 0 || total < 600 {
        println!("calibration FAILED: {bad} mismatches of {total}");
        return 1;
    }
    0
}

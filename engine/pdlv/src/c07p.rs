//! C07, pairwise legs on the wider profiles two backends share: Rust x Python on the python profile
//! (optional fields, size modifiers, struct inheritance ...: constructs the C++ backend lacks) and
//! Rust x Java on the java-rt profile (both without size modifiers on arrays, which the Rust backend ignores by
//! a documented TODO).  Values are generated at run time and serialized by both; octet
//! strings are parsed by both.  The reference model supplies inputs, tags and the Java eager-dispatch excuse.
use crate::compile::*;
use crate::remote::*;
use crate::rustharness::{self, work_dir, DrawnBatch};
use pdlv_core::choice::{draw_streams, run_streams, Src};
use pdlv_core::evidence::{fnv, Acc, Partial};
use pdlv_core::gen::*;
use pdlv_core::harness::{Batch, BatchDesc};
use pdlv_core::kf::Kf;
use pdlv_core::props::{gen_case, hex, type_tags, Input};
use pdlv_core::refcodec::{Events, Ref};
use pdlv_core::values::gen_encodable;
use serde_json::{json, Value};

/// Rust harness whose module k is description idx k (placeholders keep the positions aligned)
fn build_rust(name: &str, seed: u64, tier: &str, descs: &[RemoteDesc]) -> Result<(rustharness::Built, Vec<usize>), String> {
    let mut full_descs = vec![];
    let mut full_code = vec![];
    let mut ok = vec![];
    let maxidx = descs.iter().map(|d| d.idx).max().unwrap_or(0);
    for i in 0..=maxidx {
        let got = descs.iter().find(|d| d.idx == i).and_then(|rd| rustharness::compile_rust(&format!("d{i}.pdl"), &rd.text).ok().map(|c| (rd, c)));
        match got {
            Some((rd, c)) => {
                full_descs.push(BatchDesc { idx: i, desc: rd.desc.clone(), text: rd.text.clone(), profile: "pair".into(), strata: rd.strata.clone(), twin: None, origin: "gen".into() });
                full_code.push(c);
                ok.push(i);
            }
            None => {
                let d = pdlv_core::model::Desc { big: false, decls: vec![] };
                full_descs.push(BatchDesc { idx: i, desc: d, text: "little_endian_packets\n".into(), profile: "pair".into(), strata: vec![], twin: None, origin: "placeholder".into() });
                full_code.push(rustharness::compile_rust("e.pdl", "little_endian_packets\n").unwrap_or_default());
            }
        }
    }
    let rb = rustharness::build(name, DrawnBatch { batch: Batch { seed, tier: tier.into(), descs: full_descs }, code: full_code, dropped: vec![] })?;
    let ok = ok.into_iter().filter(|i| !rb.skip.contains(i)).collect();
    Ok((rb, ok))
}

/// (verdict, comparable value) of the other backend's parse result for `ty`
fn other_verdict(be: Backend, r: &Ref, ty: &str, b: &[u8], rust_value: Option<&Value>, got: &RDec) -> (String, Option<Value>, bool) {
    // third component: the payload was consumed by a more derived class
    match got {
        RDec::Ok { class, value, .. } => {
            let ids = r.d.record_ids();
            let (cls, fallback) = match be {
                Backend::Java => {
                    if let Some(id) = ids.iter().find(|id| &java_class_name(id) == class) {
                        (id.clone(), false)
                    } else if let Some(id) = class.strip_prefix("Unknown").and_then(|rest| ids.iter().find(|id| java_class_name(id) == rest)) {
                        (id.clone(), true)
                    } else {
                        (class.clone(), false)
                    }
                }
                _ => (class.clone(), false),
            };
            let _ = fallback;
            if cls == ty {
                ("accept".into(), Some(value.clone()), false)
            } else if r.d.descendants_of(ty).contains(&cls) {
                ("accept".into(), Some(value.clone()), !fallback || cls != ty)
            } else if be == Backend::Python {
                // Python parsed the root and stopped above `ty`: the octets are not a `ty`
                ("reject".into(), None, false)
            } else {
                (format!("unrelated-class:{class}"), None, false)
            }
        }
        RDec::Err { class, proper, .. } => {
            if class == "NoDeclaredFromBytes" {
                return ("skip".into(), None, false);
            }
            if be == Backend::Java {
                if let Some(rv) = rust_value {
                    if java_matching_child_malformed(r, ty, rv, b) {
                        return ("skip".into(), None, false);
                    }
                }
            }
            if *proper || be != Backend::Python {
                ("reject".into(), None, false)
            } else {
                (format!("improper-error:{class}"), None, false)
            }
        }
        RDec::Crash(m) => (if crash_kind(m) == "crash" { format!("crash:{}", m.chars().take(60).collect::<String>()) } else { crash_kind(m) }, None, false),
    }
}

#[allow(clippy::too_many_arguments)]
fn pair_leg<T: Target>(name: &str, be: Backend, seed: u64, tier: &str, descs: &[RemoteDesc], rb: &rustharness::Built, ok: &[usize], kf: &Kf, workers: usize, mk: &(dyn Fn() -> Result<T, String> + Sync)) -> Result<Partial, String> {
    let thorough = tier == "thorough";
    let per_type = if thorough { 200 } else { 40 };
    let parts: Vec<Result<Partial, String>> = std::thread::scope(|sc| {
        let mut hs = vec![];
        for w in 0..workers {
            hs.push(sc.spawn(move || -> Result<Partial, String> {
                let mut acc = Acc::new("C07");
                let mut rust = RustTarget::new(&rb.exe, &rb.batch_file)?;
                let mut other = mk()?;
                for rd in descs.iter().filter(|d| ok.contains(&d.idx) && d.idx % workers == w) {
                    let r = Ref::new(&rd.desc);
                    acc.p.programs += 1;
                    for ty in rd.desc.record_ids() {
                        acc.p.types += 1;
                        let chain = rd.desc.chain(&ty).unwrap_or_default();
                        let root = chain.first().cloned().unwrap_or(ty.clone());
                        let mut tags = type_tags(&r, &ty);
                        tags.extend(type_tags(&r, &root));
                        for dsc in rd.desc.descendants_of(&root) {
                            tags.extend(type_tags(&r, &dsc));
                        }
                        tags.insert(format!("pair:rust-{name}"));
                        let alias_only = rd.desc.flat(&ty).map(|fl| fl.levels.len() > 1 && fl.last().fields.iter().all(|f| matches!(f.k, pdlv_core::model::FK::Payload { .. }))).unwrap_or(false);
                        // ---- serializers
                        let mut vals: Vec<Value> = vec![];
                        for st in draw_streams(seed, &format!("C07/{name}/values/{}/{ty}", rd.idx), per_type, 300) {
                            let mut s = Src::new(&st);
                            if let Some((v, _)) = gen_encodable(&r, &ty, &mut s) {
                                if !vals.contains(&v) {
                                    vals.push(v);
                                }
                            }
                        }
                        let mut first: Option<Value> = None;
                        for v in vals {
                            let (a, b) = (rust.enc(rd.idx, &ty, &v), other.enc(rd.idx, &ty, &v));
                            if matches!(b, REnc::Crash(_)) {
                                let _ = other.restart();
                            }
                            let show = |e: &REnc| match e {
                                REnc::Ok { bytes, .. } => hex(bytes),
                                REnc::Err { class, .. } => format!("refuses:{class}"),
                                REnc::Crash(m) => format!("crash:{}", m.chars().take(60).collect::<String>()),
                            };
                            let (sa, sb) = (show(&a), show(&b));
                            let agree = sa == sb || (matches!(a, REnc::Err { .. }) && matches!(b, REnc::Err { .. }));
                            acc.eval(&format!("{name}:serialize:value"), if agree { "agree" } else { "disagree" });
                            if agree && matches!(a, REnc::Ok { .. }) {
                                acc.nontrivial(fnv(&[name.as_bytes(), rd.text.as_bytes(), ty.as_bytes(), v.to_string().as_bytes()]), || json!({"pair": format!("rust-{name}"), "description": rd.text, "type": ty, "value": v, "octets": sa}));
                            }
                            if !agree {
                                let (_, ev) = r.encode_events(&ty, &v);
                                let mut all = tags.clone();
                                all.extend(ev.iter().map(|e| format!("event:{e}")));
                                let outcome = format!("serializers-disagree:rust-vs-{name}");
                                match kf.matches("C07", "serialize", &outcome, &all) {
                                    Some(k) => acc.known(&k.id),
                                    None => {
                                        if first.is_none() {
                                            first = Some(json!({"property": "C07", "seed": seed, "pair": format!("rust-{name}"), "pdl": rd.text, "model": rd.desc, "type": ty, "op": "serialize", "input": {"json": v}, "observed": outcome,
                                                "detail": format!("rust {sa} {name} {sb}"), "tags": all.iter().cloned().collect::<Vec<_>>(), "signature": format!("C07|serialize|{outcome}")}));
                                        }
                                    }
                                }
                            }
                        }
                        if let Some(rec) = first {
                            acc.p.violations.push(rec);
                        }
                        // ---- parsers
                        let tag = format!("C07/{name}/{}/{}", rd.idx, ty);
                        let failed = std::cell::Cell::new(false);
                        let cell = std::cell::RefCell::new((&mut acc, &mut rust, &mut other));
                        let mut eval = |st: &[u32], record: bool| -> Result<(), (String, Value)> {
                            let mut s = Src::new(st);
                            let Some(case) = gen_case("C04", &r, &ty, &mut s) else { return Ok(()) };
                            let Input::Bytes(b) = &case.input else { return Ok(()) };
                            let mut g = cell.borrow_mut();
                            let (acc, rust, other) = &mut *g;
                            let dr = rust.dec(rd.idx, &ty, &root, b);
                            let dother = other.dec(rd.idx, &ty, &root, b);
                            if matches!(dother, RDec::Crash(_)) {
                                let _ = other.restart();
                            }
                            acc.frozen = failed.get() || record;
                            if matches!(&dr, RDec::Err { class, .. } if class.starts_with("panic")) {
                                acc.eval(&format!("{name}:parse:{}", case.label), "rust-panics (C01's business)");
                                return Ok(());
                            }
                            let (vr, jr) = match &dr {
                                RDec::Ok { value, .. } => ("accept".to_string(), Some(value.clone())),
                                RDec::Err { .. } => ("reject".to_string(), None),
                                RDec::Crash(m) => (if crash_kind(m) == "crash" { format!("crash:{}", m.chars().take(60).collect::<String>()) } else { crash_kind(m) }, None),
                            };
                            let (vo, jo, consumed) = other_verdict(be, &r, &ty, b, jr.as_ref(), &dother);
                            let mut problems: Vec<String> = vec![];
                            if vo == "skip" || (alias_only && be == Backend::Python) {
                                acc.eval(&format!("{name}:parse:{}", case.label), "not comparable");
                                return Ok(());
                            }
                            if vo != vr {
                                problems.push(format!("{name}={vo},rust={vr}"));
                            } else if let (Some(jr), Some(jo)) = (&jr, &jo) {
                                let mut jr2 = jr.clone();
                                if consumed {
                                    if let Some(o) = jr2.as_object_mut() {
                                        o.remove("payload");
                                    }
                                }
                                if !sub_match(&jr2, jo) {
                                    problems.push(format!("{name}-value-differs"));
                                }
                            }
                            acc.eval(&format!("{name}:parse:{}", case.label), if problems.is_empty() { if vr == "accept" { "both accept, same values" } else { "both reject" } } else { "disagree" });
                            if problems.is_empty() && vr == "accept" {
                                acc.nontrivial(fnv(&[tag.as_bytes(), b]), || json!({"pair": format!("rust-{name}"), "description": rd.text, "type": ty, "input": hex(b), "class": case.label, "value": jr}));
                            }
                            if !problems.is_empty() {
                                let mut ev = Events::new();
                                let _ = r.decode(&ty, b, true, &mut ev);
                                let mut all = tags.clone();
                                all.extend(ev.iter().map(|e| format!("event:{e}")));
                                for pb in &problems {
                                    let outcome = format!("parsers-disagree:{pb}");
                                    match kf.matches("C07", "parse", &outcome, &all) {
                                        Some(k) => acc.known(&k.id),
                                        None => {
                                            failed.set(true);
                                            return Err((
                                                outcome.clone(),
                                                json!({"property": "C07", "seed": seed, "pair": format!("rust-{name}"), "pdl": rd.text, "model": rd.desc, "type": ty, "op": "parse", "input": {"hex": hex(b)}, "class": case.label, "observed": outcome,
                                                    "detail": format!("rust {} | {name} {}", jr.as_ref().map(|j| j.to_string()).unwrap_or(vr.clone()), jo.as_ref().map(|j| j.to_string()).unwrap_or(vo.clone())),
                                                    "tags": all.iter().cloned().collect::<Vec<_>>(), "signature": format!("C07|parse|{outcome}")}),
                                            ));
                                        }
                                    }
                                }
                            }
                            Ok(())
                        };
                        let failure = run_streams(seed, &tag, if thorough { 2000 } else { 300 }, 400, |st| eval(st, false).map_err(|e| e.0));
                        let rec = failure.map(|f| match eval(&f.stream, true) {
                            Err((_, rec)) => rec,
                            Ok(()) => json!({"property": "C07", "pdl": rd.text, "type": ty, "observed": f.message, "note": "not reproduced from the minimal stream"}),
                        });
                        drop(eval);
                        drop(cell);
                        acc.frozen = false;
                        if let Some(rec) = rec {
                            acc.p.violations.push(rec);
                        }
                    }
                }
                Ok(acc.p)
            }));
        }
        hs.into_iter().map(|h| h.join().unwrap_or_else(|_| Err("worker panicked".into()))).collect()
    });
    let mut partial = Partial { property: "C07".into(), ..Default::default() };
    for p in parts {
        partial.merge(p?);
    }
    Ok(partial)
}

pub fn run_legs(tier: &str, seed: u64, kf: &Kf) -> Result<Partial, String> {
    let thorough = tier == "thorough";
    pdlv_core::choice::MAX_SHRINK.store(300, std::sync::atomic::Ordering::Relaxed);
    let mut partial = Partial { property: "C07".into(), ..Default::default() };
    // ---------------------------------------------------------------- Rust x Python
    {
        let (mut descs, _) = crate::c13::draw(seed, tier, &Profile { array_modifier: false, ..Profile::python() }, "C07/python", if thorough { 64 } else { 10 });
        // the hand-written corpus files listed for the Rust x Python pair, LE and BE
        rustharness::append_corpus(&mut descs, "python-pair");
        let dir = work_dir().join(format!("c07p-py-{tier}-{seed}"));
        let _ = std::fs::remove_dir_all(&dir);
        let _ = std::fs::create_dir_all(&dir);
        descs.retain(|rd| {
            let Ok((f, db)) = parse(&format!("m{}.pdl", rd.idx), &rd.text) else { return false };
            let Ok(Ok(af)) = guarded(|| analyze(&f)) else { return false };
            match guarded(|| pdl_compiler::backends::python::generate(&db, &af, None, &[])) {
                Ok(code) => std::fs::write(dir.join(format!("m{}.py", rd.idx)), code).is_ok(),
                Err(_) => false,
            }
        });
        let (rb, ok) = build_rust(&format!("c07p-py-{tier}-{seed}"), seed, tier, &descs)?;
        let p = pair_leg("python", Backend::Python, seed, tier, &descs, &rb, &ok, kf, 6, &|| PyTarget::new(&dir))?;
        partial.notes.push(format!("rust x python: {} descriptions of the python profile", p.programs));
        partial.merge(p);
        let _ = std::fs::remove_dir_all(&dir);
    }
    // ---------------------------------------------------------------- Rust x Java
    {
        let (descs, _) = crate::c13::draw(seed, tier, &Profile { array_modifier: false, ..Profile::java_rt() }, "C07/java", if thorough { 48 } else { 8 });
        let dir = work_dir().join(format!("c07p-java-{tier}-{seed}"));
        let (descs, _) = crate::c19::build_java(&dir, descs);
        let (rb, ok) = build_rust(&format!("c07p-java-{tier}-{seed}"), seed, tier, &descs)?;
        let cp = dir.join("out");
        let p = pair_leg("java", Backend::Java, seed, tier, &descs, &rb, &ok, kf, 4, &|| JavaTarget::new(&cp))?;
        partial.notes.push(format!("rust x java: {} descriptions of the java-rt profile", p.programs));
        partial.merge(p);
        let _ = std::fs::remove_dir_all(&dir);
    }
    Ok(partial)
}

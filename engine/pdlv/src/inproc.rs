//! Shared runner for the in-process compiler checks: N worker threads, each a proptest
//! runner over choice streams with its own deterministic seed; failures shrink per worker.
use pdlv_core::choice::run_streams;
use pdlv_core::evidence::{Acc, Partial};
use serde_json::Value;

pub struct Viol {
    pub message: String,
    pub record: Value,
}

pub const WORKERS: usize = 16;

pub fn run_parallel<F>(prop: &str, seed: u64, tag: &str, total_cases: u32, len: usize, check: F) -> Partial
where
    F: Fn(&[u32], &mut Acc) -> Result<(), Viol> + Sync,
{
    let per = (total_cases + WORKERS as u32 - 1) / WORKERS as u32;
    let parts: Vec<Partial> = std::thread::scope(|sc| {
        let mut hs = vec![];
        for w in 0..WORKERS {
            let check = &check;
            let tag = format!("{tag}/w{w}");
            let prop = prop.to_string();
            hs.push(
                std::thread::Builder::new()
                    .stack_size(64 << 20)
                    .spawn_scoped(sc, move || {
                        let mut acc = Acc::new(&prop);
                        let failed = std::cell::Cell::new(false);
                        let cell = std::cell::RefCell::new(&mut acc);
                        let f = run_streams(seed, &tag, per, len, |st| {
                            let mut a = cell.borrow_mut();
                            a.frozen = failed.get();
                            match check(st, &mut a) {
                                Ok(()) => Ok(()),
                                Err(v) => {
                                    failed.set(true);
                                    Err(v.message)
                                }
                            }
                        });
                        drop(cell);
                        acc.frozen = true;
                        if let Some(f) = f {
                            match check(&f.stream, &mut acc) {
                                Err(v) => acc.p.violations.push(v.record),
                                Ok(()) => acc.p.violations.push(serde_json::json!({"property": prop, "observed": f.message, "note": "not reproduced from the minimal stream"})),
                            }
                        }
                        acc.p
                    })
                    .unwrap(),
            );
        }
        hs.into_iter().map(|h| h.join().expect("worker")).collect()
    });
    let mut m = Partial { property: prop.into(), ..Default::default() };
    for p in parts {
        m.merge(p);
    }
    m
}

//! Compiled-harness checks on generated Rust (C01-C06, C15, C17, C18): batch drawing,
//! harness crate emission, build, sharded execution, merging, evidence and verdict.
use crate::compile::*;
use crate::report::*;
use pdlv_core::choice::draw_streams;
use pdlv_core::evidence::Partial;
use pdlv_core::gen::*;
use pdlv_core::harness::*;
use pdlv_core::kf::Kf;
use pdlv_core::model::*;
use pdlv_core::print::plain;
use serde_json::{json, Value};
use std::collections::BTreeMap;
use std::path::{Path, PathBuf};
use std::process::Command;



pub fn work_dir() -> PathBuf {
    PathBuf::from(format!("{VERIF}/.work"))
}

fn write_if_changed(p: &Path, content: &str) {
    if std::fs::read_to_string(p).map(|c| c == content).unwrap_or(false) {
        return;
    }
    if let Some(d) = p.parent() {
        let _ = std::fs::create_dir_all(d);
    }
    std::fs::write(p, content).expect("write");
}

/// Compile one description with /repo's compiler, in-process.
pub fn compile_rust(name: &str, text: &str) -> Result<String, String> {
    let (f, db) = parse(name, text).map_err(|e| format!("parse: {e}"))?;
    let af = match guarded(|| analyze(&f)) {
        Err(p) => return Err(format!("analyzer panic: {p}")),
        Ok(Err(d)) => {
            let mut buf = codespan_reporting::term::termcolor::Buffer::no_color();
            let _ = d.emit(&db, &mut buf);
            return Err(format!("analyzer rejects: {}", String::from_utf8_lossy(buf.as_slice())));
        }
        Ok(Ok(af)) => af,
    };
    guarded(|| pdl_compiler::backends::rust::generate(&db, &af, &[])).map_err(|p| format!("rust generator panic: {p}"))
}

pub struct DrawnBatch {
    pub batch: Batch,
    /// generated Rust per description
    pub code: Vec<String>,
    pub dropped: Vec<(String, String)>,
}

/// The hand-written corpus (/verif/corpus/*.pdl) as model descriptions, sorted by file name.
#[allow(dead_code)]
pub fn corpus_descs() -> Vec<(String, Result<Desc, String>, String)> {
    corpus_for("")
}

/// Corpus files whose first line (`// backends: rust python cxx java python-pair`) names `backend`
/// ("" = all files).
pub fn corpus_for(backend: &str) -> Vec<(String, Result<Desc, String>, String)> {
    let mut files: Vec<PathBuf> = std::fs::read_dir(format!("{VERIF}/corpus")).map(|r| r.filter_map(|e| e.ok()).map(|e| e.path()).filter(|p| p.extension().map(|x| x == "pdl").unwrap_or(false)).collect()).unwrap_or_default();
    files.sort();
    let mut out = vec![];
    for f in files {
        let name = f.file_name().unwrap().to_string_lossy().to_string();
        let Ok(text) = std::fs::read_to_string(&f) else { continue };
        let listed: Vec<&str> = text.lines().next().and_then(|l| l.strip_prefix("// backends:")).map(|l| l.split_whitespace().collect()).unwrap_or_default();
        if !backend.is_empty() && !listed.contains(&backend) {
            continue;
        }
        out.push((name.clone(), crate::compile::desc_of_text(&name, &text), text));
    }
    out
}

/// Append the corpus files listed for `backend` to a remote description list, LE and BE.
pub fn append_corpus(descs: &mut Vec<crate::remote::RemoteDesc>, backend: &str) {
    for (name, d, _) in corpus_for(backend) {
        let Ok(d) = d else { continue };
        for big in [false, true] {
            let mut dd = d.clone();
            dd.big = big;
            let text = plain(&dd);
            descs.push(crate::remote::RemoteDesc { idx: descs.len(), desc: dd, text, strata: vec![format!("corpus:{name}")] });
        }
    }
}

/// Draw the batch of descriptions for (seed, tier): LE/BE twin pairs cycling through strata.
pub fn draw_batch(seed: u64, tier: &str, extra: &[(String, Desc, String)]) -> DrawnBatch {
    let pairs = if tier == "thorough" { 160 } else { 24 };
    let streams = draw_streams(seed, &format!("rust-batch/{tier}"), pairs, 600);
    let mut descs = vec![];
    let mut code = vec![];
    let mut dropped = vec![];
    let mut add = |d: Desc, profile: &str, strata: Vec<String>, origin: String, twin_of: Option<usize>, descs: &mut Vec<BatchDesc>, code: &mut Vec<String>, dropped: &mut Vec<(String, String)>| -> Option<usize> {
        let text = plain(&d);
        match compile_rust(&format!("d{}.pdl", descs.len()), &text) {
            Ok(c) => {
                let idx = descs.len();
                descs.push(BatchDesc { idx, desc: d, text, profile: profile.into(), strata, twin: twin_of, origin });
                code.push(c);
                Some(idx)
            }
            Err(e) => {
                dropped.push((text, e));
                None
            }
        }
    };
    for (i, st) in streams.iter().enumerate() {
        let profile = if i % 3 == 2 { Profile::rust_rt() } else { Profile::rust() };
        let (d, strata) = gen_desc(st, &profile, Some(i + (seed as usize) * 7), false);
        let mut twin = d.clone();
        twin.big = true;
        let a = add(d, &profile.name, strata.clone(), "gen".into(), None, &mut descs, &mut code, &mut dropped);
        if let Some(a) = a {
            let b = add(twin, &profile.name, strata, "gen".into(), Some(a), &mut descs, &mut code, &mut dropped);
            if let Some(b) = b {
                descs[a].twin = Some(b);
            }
        }
    }
    // hand-written corpus: feature combinations the random strata reach only on some seeds (every run, LE and BE)
    for (name, d, text) in corpus_for("rust") {
        match d {
            Ok(d) => {
                let mut twin = d.clone();
                twin.big = !d.big;
                let origin = format!("corpus:{name}");
                let a = add(d, "rust", vec![origin.clone()], origin.clone(), None, &mut descs, &mut code, &mut dropped);
                if let Some(a) = a {
                    let b = add(twin, "rust", vec![origin.clone()], origin, Some(a), &mut descs, &mut code, &mut dropped);
                    if let Some(b) = b {
                        descs[a].twin = Some(b);
                    }
                }
            }
            Err(e) => dropped.push((text, format!("corpus file {name}: {e}"))),
        }
    }
    for (origin, d, profile) in extra {
        add(d.clone(), profile, vec![], origin.clone(), None, &mut descs, &mut code, &mut dropped);
    }
    DrawnBatch { batch: Batch { seed, tier: tier.into(), descs }, code, dropped }
}

fn backing(w: u32) -> u32 {
    match w {
        0..=8 => 8,
        9..=16 => 16,
        17..=32 => 32,
        _ => 64,
    }
}

/// main.rs of the harness crate
pub fn emit_main(batch: &Batch, skip: &[usize]) -> String {
    let mut s = String::new();
    s.push_str("#![allow(warnings)]\n");
    s.push_str(&format!("include!(\"{VERIF}/harness-rt/glue.rs\");\n"));
    for bd in &batch.descs {
        if skip.contains(&bd.idx) {
            continue;
        }
        if bd.origin == "derive" {
            // the same description compiled by one of the two attribute macros (C11): inline text, or a file path
            // relative to the crate root, alternating
            if (bd.idx / 2) % 2 == 0 {
                s.push_str(&format!("#[pdl_derive::pdl_inline(r#\"{}\"#)]\nmod d{} {{}}\n", bd.text, bd.idx));
            } else {
                s.push_str(&format!("#[pdl_derive::pdl(\"d{}.pdl\")]\nmod d{} {{}}\n", bd.idx, bd.idx));
            }
        } else {
            s.push_str(&format!("mod d{} {{ include!(\"d{}.rs\"); }}\n", bd.idx, bd.idx));
        }
    }
    s.push_str("fn main() {\n    let mut t = Table::default();\n");
    for bd in &batch.descs {
        if skip.contains(&bd.idx) {
            continue;
        }
        let i = bd.idx;
        let d = &bd.desc;
        for id in d.record_ids() {
            if d.children_of(&id).is_empty() {
                s.push_str(&format!("    t.types.push(type_ops::<d{i}::{id}>({i}, \"{id}\"));\n"));
            } else {
                s.push_str(&format!("    t.types.push(with_spec(type_ops::<d{i}::{id}>({i}, \"{id}\"), d{i}::{id}::specialize));\n"));
            }
            for dsc in d.descendants_of(&id) {
                s.push_str(&format!("    t.convs.push(conv_ops::<d{i}::{id}, d{i}::{dsc}>({i}, \"{id}\", \"{dsc}\"));\n"));
            }
        }
        for eid in d.enum_ids() {
            let (w, _) = d.enum_tags(&eid).unwrap();
            let b = backing(w);
            // widening conversions the language rule promises: unsigned w' >= w (other than the backing type), signed w' > w
            let mut wide = String::new();
            for (ty, bits, signed) in [("u8", 8, false), ("u16", 16, false), ("u32", 32, false), ("u64", 64, false), ("i8", 8, true), ("i16", 16, true), ("i32", 32, true), ("i64", 64, true)] {
                let ok = if signed { bits > w } else { bits >= w && bits != b };
                if ok {
                    wide.push_str(&format!("(\"{ty}\".to_string(), {ty}::from(e) as i128), "));
                }
            }
            s.push_str(&format!(
                "    t.enums.push(EnumOps {{ desc: {i}, name: \"{eid}\".into(), backing: {b},\n        try_from: Box::new(|x: u64| {{ if x > u{b}::MAX as u64 {{ return None; }} Some(guard_plain(|| match d{i}::{eid}::try_from(x as u{b}) {{ Ok(e) => Some(EnumVal {{ debug: format!(\"{{:?}}\", e), back: u{b}::from(e) as u64, wide: vec![{wide}] }}), Err(_) => None }})) }}),\n        default: Box::new(|| guard_plain(|| {{ let e = d{i}::{eid}::default(); EnumVal {{ debug: format!(\"{{:?}}\", e), back: u{b}::from(e) as u64, wide: vec![] }} }})) }});\n"
            ));
        }
    }
    s.push_str("    pdlv_core::hmain::main(t)\n}\n");
    s
}

const CARGO_TOML: &str = r#"[package]
name = "PKGNAME"
version = "0.0.0"
edition = "2021"

[features]
default = ["serde"]
serde = []

[dependencies]
bytes = { version = "1", features = ["serde"] }
thiserror = "1"
serde_json = "1"
serde = { version = "1", features = ["derive"] }
pdl-runtime = { path = "/repo/pdl-runtime" }
pdlv-core = { path = "/verif/engine/pdlv-core" }

[workspace]

[profile.dev]
debug = 0
opt-level = 1
overflow-checks = true
debug-assertions = true
panic = "unwind"
incremental = false
"#;

pub struct Built {
    pub dir: PathBuf,
    pub exe: PathBuf,
    pub batch_file: PathBuf,
    pub batch: Batch,
    /// descriptions whose generated code rustc refused: (text, first error)
    pub build_rejects: Vec<(String, String)>,
    pub dropped: Vec<(String, String)>,
    pub skip: Vec<usize>,
}

/// Emit and build the harness crate for a drawn batch.  Descriptions whose generated code does
/// not compile are identified from rustc's diagnostics, dropped (and reported), and the rest rebuilt.
pub fn build(name: &str, db: DrawnBatch) -> Result<Built, String> {
    let dir = work_dir().join("rs").join(name);
    std::fs::create_dir_all(dir.join("src")).map_err(|e| e.to_string())?;
    let pkg = format!("h_{}", name.chars().map(|c| if c.is_ascii_alphanumeric() { c.to_ascii_lowercase() } else { '_' }).collect::<String>());
    let derive = db.batch.descs.iter().any(|d| d.origin == "derive");
    let toml = CARGO_TOML.replace("PKGNAME", &pkg).replace("[workspace]", if derive { "pdl-derive = { path = \"/repo/pdl-derive\" }\n\n[workspace]" } else { "[workspace]" });
    write_if_changed(&dir.join("Cargo.toml"), &toml);
    let lock = std::fs::read_to_string("/repo/Cargo.lock").unwrap_or_default();
    if !dir.join("Cargo.lock").exists() {
        write_if_changed(&dir.join("Cargo.lock"), &lock);
    }
    // remove stale modules
    if let Ok(rd) = std::fs::read_dir(dir.join("src")) {
        for e in rd.flatten() {
            let n = e.file_name().to_string_lossy().to_string();
            if n.starts_with('d') && n.ends_with(".rs") {
                let k: usize = n[1..n.len() - 3].parse().unwrap_or(usize::MAX);
                if k >= db.code.len() {
                    let _ = std::fs::remove_file(e.path());
                }
            }
        }
    }
    for (i, c) in db.code.iter().enumerate() {
        write_if_changed(&dir.join(format!("src/d{i}.rs")), c);
    }
    // descriptions handed to the path-based #[pdl("...")] macro are read from files next to Cargo.toml
    for bd in db.batch.descs.iter().filter(|d| d.origin == "derive") {
        write_if_changed(&dir.join(format!("d{}.pdl", bd.idx)), &bd.text);
    }
    let mut skip: Vec<usize> = vec![];
    let mut build_rejects = vec![];
    let target = work_dir().join("target-h");
    for round in 0..6 {
        write_if_changed(&dir.join("src/main.rs"), &emit_main(&db.batch, &skip));
        let out = Command::new("cargo")
            .args(["build", "--offline", "--message-format=short"])
            .current_dir(&dir)
            .env("CARGO_TARGET_DIR", &target)
            .env("CARGO_NET_OFFLINE", "true")
            .env("RUSTFLAGS", "-Awarnings")
            .output()
            .map_err(|e| format!("cargo: {e}"))?;
        if out.status.success() {
            break;
        }
        let err = String::from_utf8_lossy(&out.stderr).to_string();
        // offending modules: lines like `src/d12.rs:34:5: error[E0425]: ...`
        let mut bad: BTreeMap<usize, String> = BTreeMap::new();
        for line in err.lines() {
            if let Some(pos) = line.find("src/d") {
                let rest = &line[pos + 5..];
                if let Some(end) = rest.find(".rs") {
                    if let Ok(k) = rest[..end].parse::<usize>() {
                        if line.contains("error") {
                            bad.entry(k).or_insert_with(|| line.to_string());
                        }
                    }
                }
            }
        }
        if bad.is_empty() || round == 5 {
            return Err(format!("harness build failed and no generated module is to blame:\n{}", err.lines().filter(|l| l.contains("error")).take(20).collect::<Vec<_>>().join("\n")));
        }
        for (k, e) in bad {
            // a twin is dropped with its sibling so that C17 stays well-formed
            for k2 in [Some(k), db.batch.descs[k].twin].into_iter().flatten() {
                if !skip.contains(&k2) {
                    skip.push(k2);
                    build_rejects.push((db.batch.descs[k2].text.clone(), e.clone()));
                }
            }
        }
    }
    let mut batch = db.batch.clone();
    // keep indices stable (module names), mark skipped descriptions by clearing their twin links
    for bd in batch.descs.iter_mut() {
        if let Some(t) = bd.twin {
            if skip.contains(&t) {
                bd.twin = None;
            }
        }
    }
    let batch_file = dir.join("batch.json");
    std::fs::write(&batch_file, serde_json::to_string(&batch).unwrap()).map_err(|e| e.to_string())?;
    let exe = target.join(format!("debug/{pkg}"));
    // the executable is shared between batches through the target dir: copy it next to the batch
    let own = dir.join("harness");
    std::fs::copy(&exe, &own).map_err(|e| format!("copy harness: {e}"))?;
    Ok(Built { dir, exe: own, batch_file, batch, build_rejects, dropped: db.dropped, skip })
}

/// Run one property over all shards; merge.
pub fn run_prop(b: &Built, prop: &str, tier: &str, seed: u64, kf_path: &str) -> Result<Partial, Infra> {
    let shards = 16usize;
    let mut children = vec![];
    for i in 0..shards {
        let out = b.dir.join(format!("partial-{prop}-{i}.json"));
        let _ = std::fs::remove_file(&out);
        let journal = b.dir.join(format!("journal-{prop}-{i}"));
        let child = Command::new(&b.exe)
            .args(["--prop", prop, "--tier", tier, "--seed", &seed.to_string(), "--batch", b.batch_file.to_str().unwrap(), "--kf", kf_path, "--out", out.to_str().unwrap(), "--shard", &format!("{i}/{shards}"), "--journal", journal.to_str().unwrap()])
            .env("RUST_BACKTRACE", "0")
            .stdout(std::process::Stdio::null())
            .stderr(std::process::Stdio::piped())
            .spawn()
            .map_err(|e| Infra(format!("spawn harness: {e}")))?;
        children.push((i, child, out, journal));
    }
    let mut merged = Partial { property: prop.into(), ..Default::default() };
    for (i, child, out, journal) in children {
        let o = child.wait_with_output().map_err(|e| Infra(format!("wait: {e}")))?;
        if !o.status.success() || !out.exists() {
            // abnormal death: the journal names the case that was executing
            let j = std::fs::read_to_string(&journal).unwrap_or_default();
            let case = j.lines().next().unwrap_or("").to_string();
            let stderr = String::from_utf8_lossy(&o.stderr).to_string();
            let mut rec = json!({"property": prop, "seed": seed, "tier": tier, "op": "process", "observed": format!("harness process died: {:?}", o.status), "stderr": stderr.lines().rev().take(5).collect::<Vec<_>>(), "journal": case});
            // decode the journal line: len \t prop \t type index \t op \t hex
            let parts: Vec<&str> = case.split('\t').collect();
            if parts.len() >= 5 {
                if let Ok(ti) = parts[2].parse::<usize>() {
                    // type index -> (desc, name): same enumeration order as emit_main
                    let mut k = 0;
                    'outer: for bd in &b.batch.descs {
                        if b.skip.contains(&bd.idx) {
                            continue;
                        }
                        for id in bd.desc.record_ids() {
                            if k == ti {
                                rec["pdl"] = json!(bd.text);
                                rec["model"] = json!(bd.desc);
                                rec["type"] = json!(id);
                                break 'outer;
                            }
                            k += 1;
                        }
                    }
                    rec["input"] = if parts[3] == "enc" { json!({"json": String::from_utf8_lossy(&pdlv_core::props::unhex(parts[4]))}) } else { json!({"hex": parts[4]}) };
                    rec["observed"] = json!(format!("abort:{}", if stderr.contains("HUGE-ALLOC") { "huge-allocation" } else if stderr.contains("overflowed its stack") { "stack-overflow" } else { "process-died" }));
                }
            }
            merged.violations.push(rec);
            let _ = i;
            continue;
        }
        let p: Partial = serde_json::from_str(&std::fs::read_to_string(&out).map_err(|e| Infra(e.to_string()))?).map_err(|e| Infra(format!("partial json: {e}")))?;
        merged.merge(p);
    }
    Ok(merged)
}

/// Replay one case in a one-description harness.  Returns the JSON printed by the harness.
pub fn replay(b: &Built, prop: &str, file: &Path, kf_path: &str) -> Result<Value, Infra> {
    let o = Command::new(&b.exe)
        .args(["--prop", prop, "--batch", b.batch_file.to_str().unwrap(), "--kf", kf_path, "--replay", file.to_str().unwrap()])
        .env("RUST_BACKTRACE", "0")
        .output()
        .map_err(|e| Infra(format!("spawn: {e}")))?;
    if !o.status.success() {
        return Ok(json!({"failures": [{"op": "process", "outcome": format!("abort:{}", if String::from_utf8_lossy(&o.stderr).contains("HUGE-ALLOC") {"huge-allocation"} else {"process-died"}), "detail": String::from_utf8_lossy(&o.stderr).lines().rev().take(3).collect::<Vec<_>>().join(" | "), "known": null}]}));
    }
    let line = String::from_utf8_lossy(&o.stdout).lines().last().unwrap_or("{}").to_string();
    serde_json::from_str(&line).map_err(|e| Infra(format!("replay output: {e}: {line}")))
}

pub fn load_kf() -> (Kf, String) {
    let p = format!("{VERIF}/known_findings.txt");
    (Kf::load(&p), p)
}

//! C17, Python / C++ / Java legs: the serializers generated for LE/BE twin descriptions are run on the
//! same values; the big-endian octets must be the little-endian ones with every swappable chunk of the
//! reference layout map reversed (only the chunk boundaries of the reference are used, not its octets).
use crate::compile::*;
use crate::remote::*;
use crate::rustharness::work_dir;
use pdlv_core::choice::{draw_streams, Src};
use pdlv_core::evidence::{fnv, Acc, Partial};
use pdlv_core::gen::*;
use pdlv_core::kf::Kf;
use pdlv_core::props::{hex, type_tags};
use pdlv_core::refcodec::Ref;
use pdlv_core::values::gen_encodable;
use serde_json::{json, Value};
use std::collections::BTreeSet;

/// (LE, BE) pairs out of a twin list as produced by `c13::draw`
fn pairs(descs: &[RemoteDesc]) -> Vec<(&RemoteDesc, &RemoteDesc)> {
    let mut out = vec![];
    for a in descs.iter().filter(|d| !d.desc.big) {
        if let Some(b) = descs.iter().find(|b| b.desc.big && b.idx == a.idx + 1) {
            let mut x = a.desc.clone();
            x.big = true;
            if pdlv_core::print::plain(&x) == b.text {
                out.push((a, b));
            }
        }
    }
    out
}

fn leg<T: Target>(acc: &mut Acc, backend: &str, seed: u64, per_type: usize, descs: &[RemoteDesc], kf: &Kf, target: &mut T) {
    for (a, b) in pairs(descs) {
        acc.p.programs += 2;
        let r = Ref::new(&a.desc);
        for ty in a.desc.record_ids() {
            acc.p.types += 1;
            let values: Vec<Value> = match target.baked_values(a.idx, &ty) {
                Some(l) => {
                    let other = target.baked_values(b.idx, &ty).unwrap_or_default();
                    l.into_iter().filter(|v| other.contains(v)).collect()
                }
                None => {
                    let mut vals = vec![];
                    for st in draw_streams(seed, &format!("C17/{backend}/values/{}/{ty}", a.idx), per_type, 300) {
                        let mut s = Src::new(&st);
                        if let Some((v, _)) = gen_encodable(&r, &ty, &mut s) {
                            if !vals.contains(&v) {
                                vals.push(v);
                            }
                        }
                    }
                    vals
                }
            };
            let mut tags: BTreeSet<String> = type_tags(&r, &ty);
            tags.insert(format!("backend:{backend}"));
            let mut first: Option<Value> = None;
            for v in values {
                let Ok(e) = r.encode(&ty, &v) else { continue };
                let (x, y) = (target.enc(a.idx, &ty, &v), target.enc(b.idx, &ty, &v));
                if matches!(x, REnc::Crash(_)) || matches!(y, REnc::Crash(_)) {
                    let _ = target.restart();
                }
                let mut fail: Option<(String, String)> = None;
                let mut nontrivial = false;
                match (&x, &y) {
                    (REnc::Ok { bytes: x, .. }, REnc::Ok { bytes: y, .. }) => {
                        if x.len() != y.len() {
                            fail = Some(("twin-length-differs".into(), format!("{} vs {}", hex(x), hex(y))));
                        } else if x.len() == e.bytes.len() {
                            let mut want = x.clone();
                            for c in &e.layout {
                                if c.swaps() && c.len > 1 {
                                    want[c.off..c.off + c.len].reverse();
                                }
                            }
                            if &want != y {
                                fail = Some(("twin-not-chunkwise-reversal".into(), format!("little-endian {} big-endian {} expected {}", hex(x), hex(y), hex(&want))));
                            }
                            nontrivial = e.layout.iter().any(|c| c.swaps() && c.len > 1);
                        } else {
                            // the length itself is C13/C14/C19's business
                            acc.skip("length-differs-from-reference");
                        }
                        acc.eval(&format!("{backend}:twin-encode"), "both-ok");
                    }
                    (REnc::Err { .. }, REnc::Err { .. }) => acc.eval(&format!("{backend}:twin-encode"), "both-refuse"),
                    (REnc::Crash(_), REnc::Crash(_)) => acc.eval(&format!("{backend}:twin-encode"), "both-crash"),
                    _ => {
                        let k = |e: &REnc| match e {
                            REnc::Ok { .. } => "ok".to_string(),
                            REnc::Err { class, .. } => format!("error:{class}"),
                            REnc::Crash(m) => format!("crash:{}", m.chars().take(60).collect::<String>()),
                        };
                        fail = Some(("twin-verdict-differs".into(), format!("{} vs {}", k(&x), k(&y))));
                        acc.eval(&format!("{backend}:twin-encode"), "verdict-differs");
                    }
                }
                if nontrivial {
                    acc.nontrivial(fnv(&[backend.as_bytes(), a.text.as_bytes(), ty.as_bytes(), v.to_string().as_bytes()]), || json!({"backend": backend, "description": a.text, "type": ty, "input": {"json": v}, "class": "twin-value"}));
                }
                if let Some((outcome, detail)) = fail {
                    let mut all = tags.clone();
                    all.extend(e.events.iter().map(|x| format!("event:{x}")));
                    match kf.matches("C17", "encode", &outcome, &all) {
                        Some(k) => acc.known(&k.id),
                        None => {
                            if first.is_none() {
                                first = Some(json!({"property": "C17", "seed": seed, "backend": backend, "pdl": a.text, "model": a.desc, "type": ty, "op": "encode", "input": {"json": v}, "class": "twin-value",
                                    "observed": outcome, "detail": detail, "tags": all.iter().cloned().collect::<Vec<_>>(), "signature": format!("C17|encode|{outcome}")}));
                            }
                        }
                    }
                }
            }
            if let Some(rec) = first {
                acc.p.violations.push(rec);
            }
        }
    }
}

pub fn run_legs(tier: &str, seed: u64, kf: &Kf) -> Partial {
    let thorough = tier == "thorough";
    std::panic::set_hook(Box::new(|_| {}));
    let mut acc = Acc::new("C17");
    let per_type = if thorough { 300 } else { 60 };
    // ---------------------------------------------------------------- Python
    {
        let (mut descs, _) = crate::c13::draw(seed, tier, &Profile::python(), "C17/python", if thorough { 80 } else { 12 });
        let dir = work_dir().join(format!("c17-py-{tier}-{seed}"));
        let _ = std::fs::remove_dir_all(&dir);
        let _ = std::fs::create_dir_all(&dir);
        descs.retain(|rd| {
            let Ok((f, db)) = parse(&format!("m{}.pdl", rd.idx), &rd.text) else { return false };
            let Ok(Ok(af)) = guarded(|| analyze(&f)) else { return false };
            match guarded(|| pdl_compiler::backends::python::generate(&db, &af, None, &[])) {
                Ok(code) => std::fs::write(dir.join(format!("m{}.py", rd.idx)), code).is_ok(),
                Err(_) => false,
            }
        });
        match PyTarget::new(&dir) {
            Ok(mut t) => leg(&mut acc, "python", seed, per_type, &descs, kf, &mut t),
            Err(e) => acc.p.notes.push(format!("python driver not started: {e}")),
        }
        let _ = std::fs::remove_dir_all(&dir);
    }
    // ---------------------------------------------------------------- C++
    {
        let dir = work_dir().join(format!("c17-cxx-{tier}-{seed}"));
        let (descs, built, _) = crate::c14::prepare(seed, tier, "C17/cxx", if thorough { 24 } else { 4 }, if thorough { 120 } else { 40 }, &dir);
        let mut t = crate::cxxharness::CxxTarget::new(&built);
        leg(&mut acc, "cxx", seed, per_type, &descs, kf, &mut t);
        drop(t);
        let _ = std::fs::remove_dir_all(&dir);
    }
    // ---------------------------------------------------------------- Java
    {
        let (descs, _) = crate::c13::draw(seed, tier, &Profile::java_rt(), "C17/java", if thorough { 60 } else { 10 });
        let dir = work_dir().join(format!("c17-java-{tier}-{seed}"));
        let (descs, _) = crate::c19::build_java(&dir, descs);
        match JavaTarget::new(&dir.join("out")) {
            Ok(mut t) => leg(&mut acc, "java", seed, per_type, &descs, kf, &mut t),
            Err(e) => acc.p.notes.push(format!("java driver not started: {e}")),
        }
        let _ = std::fs::remove_dir_all(&dir);
    }
    acc.p
}

mod calibrate;
mod smoke;
mod report;
mod rustharness;
mod rustcheck;
mod inproc;
mod c12;
mod c08;
mod c09;
mod c16;
mod c10;
mod c11;
mod remote;
mod c13;
mod c19;
mod cxxharness;
mod c14;
mod c07;
mod c07p;
mod c15x;
mod c17x;
mod backhalf;
pub mod compile;

fn opt(args: &[String], k: &str) -> Option<String> {
    args.iter().position(|a| a == k).and_then(|i| args.get(i + 1).cloned())
}

fn main() {
    let args: Vec<String> = std::env::args().collect();
    let code = match args.get(1).map(|s| s.as_str()) {
        Some("calibrate") => calibrate::run(),
        Some("smoke") => smoke::run(&args[2..]),
        Some("mkreplay") => {
            // pdlv mkreplay <prop> <file.pdl> <type> <hex:..|json:..|int:..> <class> <out.json>
            let prop = &args[2];
            let text = std::fs::read_to_string(&args[3]).expect("pdl file");
            let d = compile::desc_of_text("d0.pdl", &text).expect("parse");
            let input = if let Some(h) = args[5].strip_prefix("hex:") {
                serde_json::json!({"hex": h})
            } else if let Some(j) = args[5].strip_prefix("json:") {
                serde_json::json!({"json": serde_json::from_str::<serde_json::Value>(j).expect("json")})
            } else if let Some(j) = args[5].strip_prefix("int:") {
                serde_json::json!({"int": j.parse::<u64>().expect("int")})
            } else {
                panic!("input")
            };
            let rec = serde_json::json!({"property": prop, "pdl": pdlv_core::print::plain(&d), "model": d, "type": args[4], "input": input, "class": args[6], "how_to_run": format!("./vcheck replay {}", args[7])});
            std::fs::write(&args[7], serde_json::to_string_pretty(&rec).unwrap()).expect("write");
            0
        }
        Some("fuzz-c10") => {
            // pdlv fuzz-c10 <seed> <jobs> <runs>: the coverage-guided leg of C10 alone (trial runs)
            let n = |i: usize, d: u64| args.get(i).and_then(|x| x.parse::<u64>().ok()).unwrap_or(d);
            match c10::fuzz_campaign(n(2, 1), n(3, 2) as usize, n(4, 100_000)) {
                Ok((p, inc)) => {
                    println!("{} executions, {} corpus inputs, {} violations, inconclusive={inc}", p.evaluations, p.distinct, p.violations.len());
                    for x in &p.notes {
                        println!("  {x}");
                    }
                    for v in &p.violations {
                        println!("  violation: {}\n---- text\n{}\n---- hex {}", v["detail"], v["text"].as_str().unwrap_or(""), v["input"]["hex"]);
                    }
                    if p.violations.is_empty() { 0 } else { 1 }
                }
                Err(e) => {
                    eprintln!("{e}");
                    2
                }
            }
        }
        Some("espad") => {
            // pdlv espad <file.pdl> <type>: debug aid, padded-element inputs and what the reference says
            let text = std::fs::read_to_string(&args[2]).expect("pdl file");
            let d = compile::desc_of_text("d0.pdl", &text).expect("parse");
            let r = pdlv_core::refcodec::Ref::new(&d);
            for st in pdlv_core::choice::draw_streams(1, "espad", 400, 400) {
                let mut s = pdlv_core::choice::Src::new(&st);
                let b = pdlv_core::values::gen_bytes(&r, &[args[3].clone()], 4, &mut s);
                if b.label.starts_with("espad") {
                    let mut ev = Default::default();
                    let res = r.decode(&args[3], &b.bytes, true, &mut ev);
                    println!("{} {} -> {:?}", b.label, pdlv_core::props::hex(&b.bytes), res.map(|x| x.0.to_string()));
                }
            }
            0
        }
        Some("ref") => {
            // pdlv ref <replay.json> [type]: what the reference model says about the recorded input
            let v: serde_json::Value = serde_json::from_str(&std::fs::read_to_string(&args[2]).expect("file")).expect("json");
            let d: pdlv_core::model::Desc = serde_json::from_value(v["model"].clone()).expect("model");
            let r = pdlv_core::refcodec::Ref::new(&d);
            let ty = args.get(3).cloned().unwrap_or(v["type"].as_str().unwrap_or("").to_string());
            let mut types = d.chain(&ty).unwrap_or_default();
            types.extend(d.descendants_of(&ty));
            if let Some(h) = v["input"]["hex"].as_str() {
                let b = pdlv_core::props::unhex(h);
                for t in types {
                    let mut ev = Default::default();
                    let res = r.decode(&t, &b, true, &mut ev);
                    println!("{t}: {:?} events {:?}", res.map(|x| x.0.to_string()), ev);
                }
            } else {
                let (res, ev) = r.encode_events(&ty, &v["input"]["json"]);
                println!("{ty}: {:?} events {:?}", res.map(|e| pdlv_core::props::hex(&e.bytes)), ev);
            }
            0
        }
        Some("replay") => {
            let file = args.get(2).cloned().unwrap_or_default();
            let v: serde_json::Value = serde_json::from_str(&std::fs::read_to_string(&file).expect("replay file")).expect("json");
            let prop = v["property"].as_str().unwrap_or("").to_string();
            let d: pdlv_core::model::Desc = serde_json::from_value(v["model"].clone()).expect("model");
            match prop.as_str() {
                "C01" | "C02" | "C03" | "C04" | "C05" | "C06" | "C15" | "C17" | "C18" => match rustcheck::build_single("replay", &d) {
                    Ok(b) => match rustharness::replay(&b, &prop, std::path::Path::new(&file), &rustharness::load_kf().1) {
                        Ok(out) => {
                            println!("{}", serde_json::to_string_pretty(&out).unwrap());
                            let bad = out["failures"].as_array().map(|a| a.iter().any(|f| f["known"].is_null())).unwrap_or(false);
                            if bad {
                                println!("VIOLATION property={prop} replay={file}");
                                1
                            } else {
                                0
                            }
                        }
                        Err(e) => {
                            eprintln!("{}", e.0);
                            2
                        }
                    },
                    Err(e) => {
                        eprintln!("{e}");
                        2
                    }
                },
                "C13" | "C14" | "C19" => {
                    std::panic::set_hook(Box::new(|_| {}));
                    let (kf, _) = rustharness::load_kf();
                    let out = match prop.as_str() {
                        "C13" => c13::replay_file(&v),
                        "C14" => c14::replay_file(&v),
                        _ => c19::replay_file(&v),
                    };
                    match out {
                        None => {
                            eprintln!("infrastructure: the description of the replay file could not be generated or built");
                            2
                        }
                        Some((fails, tags)) => {
                            let mut bad = false;
                            for f in &fails {
                                let known = kf.matches(&prop, &f.op, &f.outcome, &tags).map(|k| k.id.clone());
                                println!("failure: op={} observed={} detail={} known={:?}", f.op, f.outcome, f.detail.chars().take(300).collect::<String>(), known);
                                bad |= known.is_none();
                            }
                            if !fails.is_empty() {
                                println!("tags: {}", tags.iter().cloned().collect::<Vec<_>>().join(" "));
                            }
                            if fails.is_empty() {
                                println!("no failure: the recorded case passes");
                            }
                            if bad {
                                println!("VIOLATION property={prop} replay={file}");
                                1
                            } else {
                                0
                            }
                        }
                    }
                }
                _ => {
                    eprintln!("replay is not implemented for {prop}: the replay file holds the description text, the input and the observed behaviour");
                    2
                }
            }
        }
        Some("check") => {
            let prop = args.get(2).cloned().unwrap_or_default();
            let tier = opt(&args, "--tier").unwrap_or_else(|| std::env::var("VERIF_TIER").unwrap_or("quick".into()));
            let seed: u64 = opt(&args, "--seed").and_then(|s| s.parse().ok()).or_else(|| std::env::var("VERIF_SEED").ok().and_then(|s| s.parse().ok())).unwrap_or(1);
            match prop.as_str() {
                "C01" | "C02" | "C03" | "C04" | "C05" | "C06" | "C15" | "C17" | "C18" => rustcheck::run(&prop, &tier, seed),
                "C12" => c12::run(&tier, seed),
                "C08" => c08::run(&tier, seed),
                "C09" => c09::run(&tier, seed),
                "C16" => c16::run(&tier, seed),
                "C10" => c10::run(&tier, seed),
                "C11" => c11::run(&tier, seed),
                "C13" => c13::run(&tier, seed),
                "C19" => c19::run(&tier, seed),
                "C14" => c14::run(&tier, seed),
                "C07" => c07::run(&tier, seed),
                _ => {
                    eprintln!("unknown property {prop}");
                    2
                }
            }
        }
        _ => {
            eprintln!("usage: pdlv <calibrate|...>");
            2
        }
    };
    std::process::exit(code);
}

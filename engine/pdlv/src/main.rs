mod calibrate;
pub mod compile;

fn main() {
    let args: Vec<String> = std::env::args().collect();
    let code = match args.get(1).map(|s| s.as_str()) {
        Some("calibrate") => calibrate::run(),
        _ => {
            eprintln!("usage: pdlv <calibrate|...>");
            2
        }
    };
    std::process::exit(code);
}

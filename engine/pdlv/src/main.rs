mod calibrate;
mod smoke;
pub mod compile;

fn main() {
    let args: Vec<String> = std::env::args().collect();
    let code = match args.get(1).map(|s| s.as_str()) {
        Some("calibrate") => calibrate::run(),
        Some("smoke") => smoke::run(&args[2..]),
        _ => {
            eprintln!("usage: pdlv <calibrate|...>");
            2
        }
    };
    std::process::exit(code);
}

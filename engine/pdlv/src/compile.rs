//! In-process wrappers around /repo's pdl-compiler.
use pdl_compiler::{analyzer, ast, parser};
use pdlv_core::model::Desc;
use std::panic::{catch_unwind, AssertUnwindSafe};

pub fn parse(name: &str, text: &str) -> Result<(ast::File, ast::SourceDatabase), String> {
    let mut db = ast::SourceDatabase::new();
    match parser::parse_inline(&mut db, name, text.to_string()) {
        Ok(f) => Ok((f, db)),
        Err(e) => Err(format!("{:?}", e.message)),
    }
}

pub fn ast_json(f: &ast::File) -> serde_json::Value {
    serde_json::to_value(f).expect("ast json")
}

pub fn desc_of_text(name: &str, text: &str) -> Result<Desc, String> {
    let (f, _) = parse(name, text)?;
    pdlv_core::astjson::desc_from_ast_json(&ast_json(&f))
}

pub fn panic_message(e: Box<dyn std::any::Any + Send>) -> String {
    if let Some(s) = e.downcast_ref::<&str>() {
        s.to_string()
    } else if let Some(s) = e.downcast_ref::<String>() {
        s.clone()
    } else {
        "non-string panic".into()
    }
}

pub fn guarded<T>(f: impl FnOnce() -> T) -> Result<T, String> {
    catch_unwind(AssertUnwindSafe(f)).map_err(panic_message)
}

pub fn analyze(f: &ast::File) -> Result<ast::File, analyzer::Diagnostics> {
    analyzer::analyze(f)
}

/// At most 16 external compiler processes (g++, javac) at a time: a thorough batch would otherwise start
/// several hundred of them at once and exhaust the memory.
pub struct Slot;
static SLOTS: (std::sync::Mutex<usize>, std::sync::Condvar) = (std::sync::Mutex::new(0), std::sync::Condvar::new());
pub fn compile_slot() -> Slot {
    let (m, c) = &SLOTS;
    let mut n = m.lock().unwrap();
    while *n >= 16 {
        n = c.wait(n).unwrap();
    }
    *n += 1;
    Slot
}
impl Drop for Slot {
    fn drop(&mut self) {
        let (m, c) = &SLOTS;
        *m.lock().unwrap() -= 1;
        c.notify_one();
    }
}

/// Run an external compiler with a wall-clock limit; a compile that does not finish is reported as an error
/// (the description is then dropped like any other the toolchain refuses: inconclusive for that description,
/// never a violation).
pub fn output_with_timeout(mut c: std::process::Command, secs: u64) -> std::io::Result<std::process::Output> {
    use std::io::Read;
    c.stdout(std::process::Stdio::piped()).stderr(std::process::Stdio::piped());
    let mut ch = c.spawn()?;
    let (mut so, mut se) = (ch.stdout.take().unwrap(), ch.stderr.take().unwrap());
    let t1 = std::thread::spawn(move || {
        let mut b = vec![];
        let _ = so.read_to_end(&mut b);
        b
    });
    let t2 = std::thread::spawn(move || {
        let mut b = vec![];
        let _ = se.read_to_end(&mut b);
        b
    });
    let t0 = std::time::Instant::now();
    let status = loop {
        if let Some(st) = ch.try_wait()? {
            break st;
        }
        if t0.elapsed().as_secs() > secs {
            let _ = ch.kill();
            let st = ch.wait()?;
            let _ = t1.join();
            let _ = t2.join();
            let _ = st;
            return Err(std::io::Error::new(std::io::ErrorKind::TimedOut, format!("compiler did not finish within {secs} s")));
        }
        std::thread::sleep(std::time::Duration::from_millis(200));
    };
    Ok(std::process::Output { status, stdout: t1.join().unwrap_or_default(), stderr: t2.join().unwrap_or_default() })
}

//! In-process wrappers around /repo's pdl-compiler.
use pdl_compiler::{analyzer, ast, parser};
use pdlv_core::model::Desc;
use std::panic::{catch_unwind, AssertUnwindSafe};

pub fn parse(name: &str, text: &str) -> Result<(ast::File, ast::SourceDatabase), String> {
    let mut db = ast::SourceDatabase::new();
    match parser::parse_inline(&mut db, name, text.to_string()) {
        Ok(f) => Ok((f, db)),
        Err(e) => Err(format!("{:?}", e.message)),
    }
}

pub fn ast_json(f: &ast::File) -> serde_json::Value {
    serde_json::to_value(f).expect("ast json")
}

pub fn desc_of_text(name: &str, text: &str) -> Result<Desc, String> {
    let (f, _) = parse(name, text)?;
    pdlv_core::astjson::desc_from_ast_json(&ast_json(&f))
}

pub fn panic_message(e: Box<dyn std::any::Any + Send>) -> String {
    if let Some(s) = e.downcast_ref::<&str>() {
        s.to_string()
    } else if let Some(s) = e.downcast_ref::<String>() {
        s.clone()
    } else {
        "non-string panic".into()
    }
}

pub fn guarded<T>(f: impl FnOnce() -> T) -> Result<T, String> {
    catch_unwind(AssertUnwindSafe(f)).map_err(panic_message)
}

pub fn analyze(f: &ast::File) -> Result<ast::File, analyzer::Diagnostics> {
    analyzer::analyze(f)
}

/// At most 16 external compiler processes (g++, javac) at a time: a thorough batch would otherwise start
/// several hundred of them at once and exhaust the memory.
pub struct Slot;
static SLOTS: (std::sync::Mutex<usize>, std::sync::Condvar) = (std::sync::Mutex::new(0), std::sync::Condvar::new());
pub fn compile_slot() -> Slot {
    let (m, c) = &SLOTS;
    let mut n = m.lock().unwrap();
    while *n >= 16 {
        n = c.wait(n).unwrap();
    }
    *n += 1;
    Slot
}
impl Drop for Slot {
    fn drop(&mut self) {
        let (m, c) = &SLOTS;
        *m.lock().unwrap() -= 1;
        c.notify_one();
    }
}

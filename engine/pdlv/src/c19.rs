//! C19 - Java backend: conformance and round trip.
use crate::compile::*;
use crate::remote::*;
use crate::report::*;
use crate::rustharness::{load_kf, work_dir};
use pdlv_core::gen::*;
use serde_json::json;
use std::process::Command;

/// generate + javac every description into `dir/out`; returns the descriptions that compiled
pub fn build_java(dir: &std::path::Path, descs: Vec<RemoteDesc>) -> (Vec<RemoteDesc>, usize) {
    let _ = std::fs::remove_dir_all(dir);
    let _ = std::fs::create_dir_all(dir.join("out"));
    let src = dir.join("src");
    let mut gen_ok = vec![];
    let mut dropped = 0;
    for rd in descs {
        let Ok((f, db)) = parse(&format!("p{}.pdl", rd.idx), &rd.text) else { continue };
        let Ok(Ok(af)) = guarded(|| analyze(&f)) else { continue };
        match guarded(|| pdl_compiler::backends::java::generate(&db, &af, &[], &src, &format!("p{}", rd.idx))) {
            Ok(Ok(())) => gen_ok.push(rd),
            _ => dropped += 1,
        }
    }
    let results: Vec<bool> = std::thread::scope(|sc| {
        let hs: Vec<_> = gen_ok
            .iter()
            .map(|rd| {
                let src = src.clone();
                let out = dir.join("out");
                sc.spawn(move || {
                    let files: Vec<_> = std::fs::read_dir(src.join(format!("p{}", rd.idx))).map(|r| r.flatten().map(|e| e.path()).collect()).unwrap_or_default();
                    Command::new("javac").arg("-d").arg(&out).arg("-nowarn").args(&files).output().map(|o| o.status.success()).unwrap_or(false)
                })
            })
            .collect();
        hs.into_iter().map(|h| h.join().unwrap_or(false)).collect()
    });
    let mut ok = vec![];
    for (rd, good) in gen_ok.into_iter().zip(results) {
        if good {
            ok.push(rd);
        } else {
            dropped += 1;
        }
    }
    let _ = Command::new("javac").arg("-d").arg(dir.join("out")).arg("-nowarn").arg(format!("{VERIF}/harness-rt/Driver.java")).output();
    (ok, dropped)
}

pub fn run(tier: &str, seed: u64) -> i32 {
    let t0 = std::time::Instant::now();
    let (kf, _) = load_kf();
    let thorough = tier == "thorough";
    std::panic::set_hook(Box::new(|_| {}));
    let (descs, mut dropped) = crate::c13::draw(seed, tier, &Profile::java(), "C19", if thorough { 96 } else { 16 });
    let dir = work_dir().join(format!("java-{tier}-{seed}"));
    let (descs, d2) = build_java(&dir, descs);
    dropped += d2;
    let cp = dir.join("out");
    let partial = match run_remote("C19", Backend::Java, seed, thorough, &descs, &kf, 4, &|_w| JavaTarget::new(&cp)) {
        Ok(p) => p,
        Err(e) => {
            eprintln!("infrastructure: {}", e.0);
            return 2;
        }
    };
    let _ = std::fs::remove_dir_all(&dir);
    let v = Verdict {
        property: "C19".into(),
        tier: tier.into(),
        seed,
        partial,
        rule: "descriptions from the java profile (the shapes on which the Java generator emits compiling code: no optional fields, padding, element-size, custom fields, bodies, groups, fixed fields, struct-typed fields or enum arrays; widths 2..31 for size/count/enum fields, 63/64-bit scalars included), both endiannesses; reflection driver in one long-lived JVM. Oracle: reference model. fromBytes on accepted input returns the asked class, a descendant or the Unknown<Parent> fallback; its getters carry the reference values (signed Java integers re-read as unsigned), no discriminated child of the returned class also parses, toBytes() equals the canonical re-encoding; input the reference rejects makes fromBytes throw (a throw on input accepted at the parent level is excused only if a child whose constraints match is malformed). Values: Builder..build().toBytes() equals the reference encoding and fromBytes of it returns the values. Non-trivial: accepted inputs, rejections other than a plain length error, encodings >= 2 octets; distinct by (type, input).".into(),
        assumptions: vec!["OpenJDK 17; javac refusals are C10's business and the description is dropped here".into(), "the reference model is correct".into()],
        extra: json!({"dropped_descriptions": dropped, "descriptions": descs.len()}),
        wall_s: t0.elapsed().as_secs_f64(),
        known_reproduced: vec![],
    };
    finish(v, &kf)
}

//! C19 - Java backend: conformance and round trip.
use crate::compile::*;
use crate::remote::*;
use crate::report::*;
use crate::rustharness::{load_kf, work_dir};
use pdlv_core::gen::*;
use serde_json::json;
use std::process::Command;

/// generate + javac every description into `dir/out`; returns the descriptions that compiled
pub fn build_java(dir: &std::path::Path, descs: Vec<RemoteDesc>) -> (Vec<RemoteDesc>, usize) {
    let _ = std::fs::remove_dir_all(dir);
    let _ = std::fs::create_dir_all(dir.join("out"));
    let src = dir.join("src");
    let mut gen_ok = vec![];
    let mut dropped = 0;
    for rd in descs {
        let Ok((f, db)) = parse(&format!("p{}.pdl", rd.idx), &rd.text) else { continue };
        let Ok(Ok(af)) = guarded(|| analyze(&f)) else { continue };
        match guarded(|| pdl_compiler::backends::java::generate(&db, &af, &[], &src, &format!("p{}", rd.idx))) {
            Ok(Ok(())) => gen_ok.push(rd),
            other => {
                if std::env::var("PDLV_SURVEY").is_ok() {
                    if std::env::var("PDLV_SURVEY").as_deref() == Ok("text") {
                        println!("---- text of p{}\n{}", rd.idx, rd.text);
                    }
                    println!("dropped: generator: {}", match other { Err(m) => m, Ok(Err(e)) => e.to_string(), _ => String::new() }.chars().take(160).collect::<String>());
                }
                dropped += 1
            }
        }
    }
    let results: Vec<bool> = std::thread::scope(|sc| {
        let hs: Vec<_> = gen_ok
            .iter()
            .map(|rd| {
                let src = src.clone();
                let out = dir.join("out");
                sc.spawn(move || {
                    let _slot = crate::compile::compile_slot();
                    let files: Vec<_> = std::fs::read_dir(src.join(format!("p{}", rd.idx))).map(|r| r.flatten().map(|e| e.path()).collect()).unwrap_or_default();
                    let o = Command::new("javac").arg("-d").arg(&out).arg("-nowarn").args(&files).output();
                    if let (Ok(o), true) = (&o, std::env::var("PDLV_SURVEY").is_ok()) {
                        if !o.status.success() {
                            let e = String::from_utf8_lossy(&o.stderr);
                            let l: Vec<&str> = e.lines().take(3).collect();
                            println!("dropped: javac: {}", l.join(" | ").chars().take(300).collect::<String>());
                            if std::env::var("PDLV_SURVEY").as_deref() == Ok("text") {
                                println!("---- text of p{}\n{}", rd.idx, rd.text);
                            }
                        }
                    }
                    o.map(|o| o.status.success()).unwrap_or(false)
                })
            })
            .collect();
        hs.into_iter().map(|h| h.join().unwrap_or(false)).collect()
    });
    let mut ok = vec![];
    for (rd, good) in gen_ok.into_iter().zip(results) {
        if good {
            ok.push(rd);
        } else {
            dropped += 1;
        }
    }
    let _ = Command::new("javac").arg("-d").arg(dir.join("out")).arg("-nowarn").arg(format!("{VERIF}/harness-rt/Driver.java")).output();
    (ok, dropped)
}

/// The declarations of the canonical test file that the repository's own Java CI keeps
/// (tests/run_java_generator_tests.sh), as a model description.
pub fn canonical_java_subset(big: bool) -> Option<pdlv_core::model::Desc> {
    use pdlv_core::model::*;
    let text = std::fs::read_to_string("/repo/pdl-compiler/tests/canonical/le_test_file.pdl").ok()?;
    let text = if big { text.replace("little_endian_packets", "big_endian_packets") } else { text };
    let mut d = desc_of_text("canonical.pdl", &text).ok()?;
    let excluded = |id: &str| ["Custom", "Checksum", "_Body_", "Padded", "VariableElementSize", "Optional", "AliasedChild", "Struct_"].iter().any(|k| id.contains(k));
    fn refs(fields: &[Field], out: &mut Vec<String>) {
        for f in fields {
            match &f.d {
                FieldDesc::Typedef { ty, .. } | FieldDesc::FixedEnum { ty, .. } => out.push(ty.clone()),
                FieldDesc::Array { elem: Elem::Ty(t), .. } => out.push(t.clone()),
                FieldDesc::Group { id, .. } => out.push(id.clone()),
                FieldDesc::Checksum { .. } => out.push("<checksum>".into()),
                _ => {}
            }
        }
    }
    d.decls.retain(|x| !matches!(x, Decl::Custom { .. } | Decl::Checksum { .. }) && !excluded(x.id()));
    // drop declarations that refer to something that is gone (fixpoint)
    loop {
        let ids: Vec<String> = d.decls.iter().map(|x| x.id().to_string()).collect();
        let before = d.decls.len();
        d.decls.retain(|x| match x {
            Decl::Record { parent, fields, .. } => {
                let mut r = vec![];
                refs(fields, &mut r);
                if let Some(p) = parent {
                    r.push(p.clone());
                }
                r.iter().all(|t| ids.contains(t))
            }
            Decl::Group { fields, .. } => {
                let mut r = vec![];
                refs(fields, &mut r);
                r.iter().all(|t| ids.contains(t))
            }
            _ => true,
        });
        if d.decls.len() == before {
            break;
        }
    }
    Some(d)
}

/// A variant of `d`: inside every bit-field run of plain scalar fields the widths are redistributed
/// (total preserved), scalar array element widths move among 8/16/32/64.
pub fn java_variant(d: &pdlv_core::model::Desc, s: &mut pdlv_core::choice::Src) -> pdlv_core::model::Desc {
    use pdlv_core::model::*;
    let mut d = d.clone();
    // fields referenced by constraints or conditions keep their width
    let mut pinned: Vec<String> = vec![];
    for decl in &d.decls {
        if let Decl::Record { cons, fields, .. } = decl {
            pinned.extend(cons.iter().map(|c| c.id.clone()));
            for f in fields {
                if let FieldDesc::Group { cons, .. } = &f.d {
                    pinned.extend(cons.iter().map(|c| c.id.clone()));
                }
                if let Some(c) = &f.cond {
                    pinned.push(c.0.clone());
                }
            }
        }
    }
    for decl in d.decls.iter_mut() {
        let Decl::Record { fields, .. } = decl else { continue };
        // runs of consecutive plain scalars
        let mut i = 0;
        while i < fields.len() {
            let mut j = i;
            while j < fields.len() && matches!(&fields[j].d, FieldDesc::Scalar { id, .. } if !pinned.contains(id)) && fields[j].cond.is_none() {
                j += 1;
            }
            if j - i >= 2 && s.below(2) == 0 {
                let total: u32 = fields[i..j].iter().map(|f| if let FieldDesc::Scalar { w, .. } = &f.d { *w } else { 0 }).sum();
                let n = (j - i) as u32;
                if total >= 2 * n && total <= 64 {
                    // every field keeps at least 2 bits (1-bit fields become booleans in Java: left as they are)
                    let mut rest = total - 2 * n;
                    for k in i..j {
                        let extra = if k + 1 == j { rest } else { s.below(rest as usize + 1) as u32 };
                        rest -= extra;
                        if let FieldDesc::Scalar { w, .. } = &mut fields[k].d {
                            *w = 2 + extra;
                        }
                    }
                }
            }
            i = j.max(i + 1);
        }
        for f in fields.iter_mut() {
            if let FieldDesc::Array { elem: Elem::Bits(w), .. } = &mut f.d {
                if [8, 16, 32, 64].contains(w) && s.below(3) == 0 {
                    *w = *s.pick(&[8u32, 16, 32, 64]);
                }
            }
        }
    }
    d
}

pub fn run(tier: &str, seed: u64) -> i32 {
    let t0 = std::time::Instant::now();
    let (kf, _) = load_kf();
    let thorough = tier == "thorough";
    std::panic::set_hook(Box::new(|_| {}));
    let survey = std::env::var("PDLV_SURVEY").is_ok();
    pdlv_core::choice::MAX_SHRINK.store(if survey { 0 } else { 300 }, std::sync::atomic::Ordering::Relaxed);
    // Domain: the canonical declarations the repository's Java CI keeps, in both endiannesses, plus
    // variants with redistributed bit-field widths and other array element widths (DESIGN section 10
    // fallback: the Java generator fails on most shapes outside this family, see section 7).
    let mut descs: Vec<RemoteDesc> = vec![];
    let mut dropped = 0usize;
    let nvar = if thorough { 10 } else { 2 };
    for big in [false, true] {
        let Some(base) = canonical_java_subset(big) else {
            eprintln!("infrastructure: canonical test file not readable");
            return 2;
        };
        let mut variants = vec![base.clone()];
        for st in pdlv_core::choice::draw_streams(seed, &format!("C19/variants/{tier}/{big}"), nvar, 400) {
            let mut s = pdlv_core::choice::Src::new(&st);
            variants.push(java_variant(&base, &mut s));
        }
        for v in variants {
            let text = pdlv_core::print::plain(&v);
            match parse("j.pdl", &text).ok().and_then(|(f, _)| guarded(|| analyze(&f)).ok().and_then(|r| r.ok())) {
                Some(_) => descs.push(RemoteDesc { idx: descs.len(), desc: v, text, strata: vec![] }),
                None => dropped += 1,
            }
        }
    }
    // generated descriptions of the java profile, as LE/BE twins
    let ngen = if thorough { 160 } else { 32 };
    let mut profile = Profile::java_rt();
    if survey {
        // exploration: PDLV_JAVA_SET=flag=1,other=0
        for kv in std::env::var("PDLV_JAVA_SET").unwrap_or_default().split(',').filter(|x| !x.is_empty()) {
            let (k, v) = kv.split_once('=').unwrap_or((kv, "1"));
            profile.set(k, v.parse().unwrap_or(1));
        }
    }
    let (gen, d1) = crate::c13::draw(seed, tier, &profile, "C19", ngen);
    dropped += d1;
    for mut rd in gen {
        rd.idx = descs.len();
        descs.push(rd);
    }
    crate::rustharness::append_corpus(&mut descs, "java");
    let dir = work_dir().join(format!("java-{tier}-{seed}"));
    let (descs, d2) = build_java(&dir, descs);
    dropped += d2;
    let cp = dir.join("out");
    let partial = match run_remote("C19", Backend::Java, seed, if thorough { (1500, 500) } else { (120, 40) }, &descs, &kf, 4, &|_w| JavaTarget::new(&cp)) {
        Ok(p) => p,
        Err(e) => {
            eprintln!("infrastructure: {}", e.0);
            return 2;
        }
    };
    let _ = std::fs::remove_dir_all(&dir);
    if survey {
        let mut h: std::collections::BTreeMap<String, (usize, String)> = Default::default();
        for v in &partial.violations {
            let k = format!("{} | {}", v["op"].as_str().unwrap_or(""), v["observed"].as_str().unwrap_or("").chars().take(60).collect::<String>());
            let e = h.entry(k).or_insert((0, format!("{} {} :: {}", v["type"].as_str().unwrap_or(""), v["input"], v["detail"].as_str().unwrap_or("").chars().take(200).collect::<String>())));
            e.0 += 1;
        }
        for (k, (n, ex)) in h {
            println!("{n:4}  {k}\n        e.g. {ex}");
        }
    }
    let v = Verdict {
        property: "C19".into(),
        tier: tier.into(),
        seed,
        partial,
        rule: "descriptions from the java profile (the shapes on which the Java generator emits compiling code: no optional fields, padding, element-size, custom fields, bodies, groups, fixed fields, struct-typed fields or enum arrays; widths 2..31 for size/count/enum fields, 63/64-bit scalars included), both endiannesses; reflection driver in one long-lived JVM. Oracle: reference model. fromBytes on accepted input returns the asked class, a descendant or the Unknown<Parent> fallback; its getters carry the reference values (signed Java integers re-read as unsigned), no discriminated child of the returned class also parses, toBytes() equals the canonical re-encoding; input the reference rejects makes fromBytes throw (a throw on input accepted at the parent level is excused only if a child whose constraints match is malformed). Values: Builder..build().toBytes() equals the reference encoding and fromBytes of it returns the values. Non-trivial: accepted inputs, rejections other than a plain length error, encodings >= 2 octets; distinct by (type, input).".into(),
        assumptions: vec!["OpenJDK 17; javac refusals are C10's business and the description is dropped here".into(), "the reference model is correct".into()],
        extra: json!({"dropped_descriptions": dropped, "descriptions": descs.len()}),
        wall_s: t0.elapsed().as_secs_f64(),
        known_reproduced: vec![],
    };
    finish(v, &kf)
}

/// Replay one recorded case against freshly generated and compiled Java classes.
pub fn replay_file(rec: &serde_json::Value) -> Option<(Vec<RFail>, std::collections::BTreeSet<String>)> {
    let d = serde_json::from_value::<pdlv_core::model::Desc>(rec["model"].clone()).ok()?;
    let text = pdlv_core::print::plain(&d);
    let rd = RemoteDesc { idx: 0, desc: d.clone(), text: text.clone(), strata: vec![] };
    let dir = work_dir().join(format!("java-replay-{}", std::process::id()));
    let (ok, _) = build_java(&dir, vec![RemoteDesc { idx: 0, desc: d, text, strata: vec![] }]);
    let out = if ok.is_empty() { None } else { JavaTarget::new(&dir.join("out")).ok().map(|mut t| replay_one(Backend::Java, &mut t, &rd, rec)) };
    let _ = std::fs::remove_dir_all(&dir);
    out
}

//! C10 back half: code emitted for accepted descriptions must be accepted by the target toolchains.
use crate::compile::*;
use crate::rustharness::*;
use pdlv_core::choice::draw_streams;
use pdlv_core::evidence::{fnv, Acc, Partial};
use pdlv_core::gen::*;
use pdlv_core::kf::Kf;
use pdlv_core::print::plain;
use serde_json::{json, Value};
use std::collections::BTreeSet;
use std::process::Command;

pub struct Back {
    pub partial: Partial,
    pub extra: Value,
}

fn first_error(s: &str) -> String {
    s.lines().find(|l| l.contains("error") || l.contains("Error")).unwrap_or(s.lines().next().unwrap_or("")).chars().take(300).collect()
}

fn error_class(line: &str) -> String {
    // `error[E0425]: ...`, `error: ...`, `SyntaxError: ...` -> keep the code / kind only
    if let Some(p) = line.find("error[") {
        return line[p..].split(']').next().unwrap_or("error").to_string() + "]";
    }
    if line.contains("SyntaxError") {
        return "SyntaxError".into();
    }
    let l = line.split("error:").nth(1).unwrap_or(line).trim();
    pdlv_core::harness::panic_class(&l.chars().take(60).collect::<String>())
}

pub fn run(tier: &str, seed: u64, kf: &Kf) -> Back {
    let mut acc = Acc::new("C10");
    let thorough = tier == "thorough";
    let record = |acc: &mut Acc, backend: &str, text: &str, err: &str| {
        let line = first_error(err);
        let observed = format!("build-fails:{}", error_class(&line));
        let mut tags: BTreeSet<String> = [format!("backend:{backend}")].into_iter().collect();
        if let Ok(d) = desc_of_text("t.pdl", text) {
            tags.extend(pdlv_core::dtags::desc_tags(&d));
        }
        match kf.matches("C10", &format!("compile:{backend}"), &observed, &tags) {
            Some(k) => acc.known(&k.id),
            None => acc.p.violations.push(json!({"property": "C10", "op": format!("compile:{backend}"), "observed": observed, "detail": line, "text": text, "backends": [backend], "type": Value::Null, "signature": format!("C10|compile:{backend}|{observed}")})),
        }
    };
    // ---- Rust: the shared harness batch; rustc is the check
    let db = draw_batch(seed, tier, &[]);
    let n_rust = db.batch.descs.len();
    for (text, err) in &db.dropped {
        // the compiler itself refused or crashed on a description of the rust profile
        let observed = format!("generator-refuses:{}", pdlv_core::harness::panic_class(&err.chars().take(80).collect::<String>()));
        let tags: BTreeSet<String> = ["backend:rust".to_string()].into_iter().collect();
        match kf.matches("C10", "generate:rust", &observed, &tags) {
            Some(k) => acc.known(&k.id),
            None => acc.p.violations.push(json!({"property": "C10", "op": "generate:rust", "observed": observed, "detail": err.chars().take(400).collect::<String>(), "text": text, "backends": ["rust"], "type": Value::Null, "signature": format!("C10|generate:rust|{observed}")})),
        }
    }
    let mut rust_ok = 0;
    match build(&format!("{tier}-{seed}"), db) {
        Ok(b) => {
            rust_ok = b.batch.descs.len() - b.skip.len();
            for (text, err) in &b.build_rejects {
                record(&mut acc, "rust", text, err);
            }
            for bd in &b.batch.descs {
                if !b.skip.contains(&bd.idx) {
                    acc.eval("compiles:rust", "ok");
                    acc.nontrivial(fnv(&[b"rust", bd.text.as_bytes()]), || json!({"text": bd.text, "class": "compiles:rust"}));
                }
            }
        }
        Err(e) => acc.p.notes.push(format!("rust harness build: {e}")),
    }
    // ---- Python, C++, Java: compile-only batches
    let counts = if thorough { (160, 96, 96) } else { (32, 24, 24) };
    let work = work_dir().join(format!("c10-{tier}-{seed}"));
    let _ = std::fs::remove_dir_all(&work);
    let _ = std::fs::create_dir_all(&work);
    let mut ok = (0usize, 0usize, 0usize);
    // Python
    {
        let streams = draw_streams(seed, &format!("C10/py/{tier}"), counts.0, 600);
        let mut files = vec![];
        for (i, st) in streams.iter().enumerate() {
            let (d, _) = gen_desc(st, &Profile::python(), Some(i), i % 2 == 1);
            let text = plain(&d);
            let Ok((f, db)) = parse("m.pdl", &text) else { continue };
            let Ok(Ok(af)) = guarded(|| analyze(&f)) else { continue };
            match guarded(|| pdl_compiler::backends::python::generate(&db, &af, None, &[])) {
                Ok(code) => {
                    let p = work.join(format!("m{i}.py"));
                    let _ = std::fs::write(&p, code);
                    files.push((i, p, text));
                }
                Err(_) => {} // front half's business
            }
        }
        let script = "import sys, importlib.util\nfor p in sys.argv[1:]:\n    try:\n        src = open(p).read()\n        compile(src, p, 'exec')\n        spec = importlib.util.spec_from_file_location('m', p)\n        m = importlib.util.module_from_spec(spec)\n        spec.loader.exec_module(m)\n        print('OK', p)\n    except BaseException as e:\n        print('ERR', p, type(e).__name__ + ': ' + str(e).replace('\\n', ' ')[:200])\n";
        let sp = work.join("check.py");
        let _ = std::fs::write(&sp, script);
        let out = Command::new("python3").arg(&sp).args(files.iter().map(|f| f.1.clone())).output();
        if let Ok(o) = out {
            let so = String::from_utf8_lossy(&o.stdout).to_string();
            for (_, p, text) in &files {
                let ps = p.to_string_lossy().to_string();
                match so.lines().find(|l| l.contains(&ps)) {
                    Some(l) if l.starts_with("OK") => {
                        ok.0 += 1;
                        acc.eval("compiles:python", "ok");
                        acc.nontrivial(fnv(&[b"py", text.as_bytes()]), || json!({"text": text, "class": "compiles:python"}));
                    }
                    Some(l) => record(&mut acc, "python", text, l),
                    None => acc.p.notes.push("python checker did not report a file".into()),
                }
            }
        } else {
            acc.p.notes.push("python3 not runnable".into());
        }
    }
    // C++
    {
        let streams = draw_streams(seed, &format!("C10/cxx/{tier}"), counts.1, 600);
        let mut jobs = vec![];
        for (i, st) in streams.iter().enumerate() {
            let (d, _) = gen_desc(st, &Profile::cxx(), Some(i), i % 2 == 1);
            let text = plain(&d);
            let Ok((f, db)) = parse("h.pdl", &text) else { continue };
            let Ok(Ok(af)) = guarded(|| analyze(&f)) else { continue };
            if let Ok(code) = guarded(|| pdl_compiler::backends::cxx::generate(&db, &af, Some("ns"), &[], &[], &[])) {
                let p = work.join(format!("h{i}.h"));
                let _ = std::fs::write(&p, code);
                jobs.push((p, text));
            }
        }
        let results: Vec<(String, Result<(), String>)> = std::thread::scope(|sc| {
            let hs: Vec<_> = jobs
                .iter()
                .map(|(p, text)| {
                    sc.spawn(move || {
                        let _slot = crate::compile::compile_slot();
                        let o = Command::new("g++").args(["-std=c++17", "-fsyntax-only", "-I/repo/pdl-compiler/scripts", "-x", "c++"]).arg(p).output();
                        match o {
                            Ok(o) if o.status.success() => (text.clone(), Ok(())),
                            Ok(o) => (text.clone(), Err(String::from_utf8_lossy(&o.stderr).to_string())),
                            Err(e) => (text.clone(), Err(format!("g++: {e}"))),
                        }
                    })
                })
                .collect();
            hs.into_iter().map(|h| h.join().unwrap()).collect()
        });
        for (text, r) in results {
            match r {
                Ok(()) => {
                    ok.1 += 1;
                    acc.eval("compiles:cxx", "ok");
                    acc.nontrivial(fnv(&[b"cxx", text.as_bytes()]), || json!({"text": text, "class": "compiles:cxx"}));
                }
                Err(e) => record(&mut acc, "cxx", &text, &e),
            }
        }
    }
    // Java
    {
        let streams = draw_streams(seed, &format!("C10/java/{tier}"), counts.2, 600);
        let jdir = work.join("java");
        let mut pk = vec![];
        for (i, st) in streams.iter().enumerate() {
            let (d, _) = gen_desc(st, &Profile::java(), Some(i), i % 2 == 1);
            let text = plain(&d);
            let Ok((f, db)) = parse("j.pdl", &text) else { continue };
            let Ok(Ok(af)) = guarded(|| analyze(&f)) else { continue };
            let pkg = format!("p{i}");
            if let Ok(Ok(())) = guarded(|| pdl_compiler::backends::java::generate(&db, &af, &[], &jdir, &pkg)) {
                pk.push((pkg, text));
            }
        }
        let results: Vec<(String, Result<(), String>)> = std::thread::scope(|sc| {
            let hs: Vec<_> = pk
                .iter()
                .map(|(pkg, text)| {
                    let jdir = jdir.clone();
                    sc.spawn(move || {
                        let _slot = crate::compile::compile_slot();
                        let files: Vec<_> = std::fs::read_dir(jdir.join(pkg)).map(|rd| rd.flatten().map(|e| e.path()).filter(|p| p.extension().map(|x| x == "java").unwrap_or(false)).collect()).unwrap_or_default();
                        let o = Command::new("javac").arg("-d").arg(jdir.join("out")).arg("-nowarn").args(&files).output();
                        match o {
                            Ok(o) if o.status.success() => (text.clone(), Ok(())),
                            Ok(o) => (text.clone(), Err(String::from_utf8_lossy(&o.stderr).to_string())),
                            Err(e) => (text.clone(), Err(format!("javac: {e}"))),
                        }
                    })
                })
                .collect();
            hs.into_iter().map(|h| h.join().unwrap()).collect()
        });
        for (text, r) in results {
            match r {
                Ok(()) => {
                    ok.2 += 1;
                    acc.eval("compiles:java", "ok");
                    acc.nontrivial(fnv(&[b"java", text.as_bytes()]), || json!({"text": text, "class": "compiles:java"}));
                }
                Err(e) => record(&mut acc, "java", &text, &e),
            }
        }
    }
    let _ = std::fs::remove_dir_all(&work);
    acc.p.programs = (rust_ok + ok.0 + ok.1 + ok.2) as u64;
    Back { partial: acc.p, extra: json!({"compiled_ok": {"rust": rust_ok, "python": ok.0, "cxx": ok.1, "java": ok.2}, "rust_batch": n_rust}) }
}

/// Compile one description with one toolchain (replay of committed back-half findings).
pub fn compile_one(text: &str, backend: &str, kf: &Kf, acc: &mut Acc) {
    let work = work_dir().join(format!("c10-one-{:016x}", fnv(&[text.as_bytes(), backend.as_bytes()])));
    let _ = std::fs::remove_dir_all(&work);
    let _ = std::fs::create_dir_all(&work);
    let Ok((f, db)) = parse("one.pdl", text) else { return };
    let Ok(Ok(af)) = guarded(|| analyze(&f)) else { return };
    let mut tags: BTreeSet<String> = [format!("backend:{backend}")].into_iter().collect();
    if let Ok(d) = desc_of_text("t.pdl", text) {
        tags.extend(pdlv_core::dtags::desc_tags(&d));
    }
    let err: Option<String> = match backend {
        "cxx" => {
            let Ok(code) = guarded(|| pdl_compiler::backends::cxx::generate(&db, &af, Some("ns"), &[], &[], &[])) else { return };
            let p = work.join("one.h");
            let _ = std::fs::write(&p, code);
            match Command::new("g++").args(["-std=c++17", "-fsyntax-only", "-I/repo/pdl-compiler/scripts", "-x", "c++"]).arg(&p).output() {
                Ok(o) if o.status.success() => None,
                Ok(o) => Some(String::from_utf8_lossy(&o.stderr).to_string()),
                Err(e) => Some(e.to_string()),
            }
        }
        "python" => {
            let Ok(code) = guarded(|| pdl_compiler::backends::python::generate(&db, &af, None, &[])) else { return };
            let p = work.join("one.py");
            let _ = std::fs::write(&p, code);
            match Command::new("python3").arg(&p).output() {
                Ok(o) if o.status.success() => None,
                Ok(o) => Some(String::from_utf8_lossy(&o.stderr).lines().last().unwrap_or("").to_string()),
                Err(e) => Some(e.to_string()),
            }
        }
        "java" => {
            let jdir = work.join("java");
            if !matches!(guarded(|| pdl_compiler::backends::java::generate(&db, &af, &[], &jdir, "p")), Ok(Ok(()))) {
                return;
            }
            let files: Vec<_> = std::fs::read_dir(jdir.join("p")).map(|rd| rd.flatten().map(|e| e.path()).collect()).unwrap_or_default();
            match Command::new("javac").arg("-d").arg(jdir.join("out")).arg("-nowarn").args(&files).output() {
                Ok(o) if o.status.success() => None,
                Ok(o) => Some(String::from_utf8_lossy(&o.stderr).to_string()),
                Err(e) => Some(e.to_string()),
            }
        }
        _ => None,
    };
    let _ = std::fs::remove_dir_all(&work);
    if let Some(e) = err {
        let line = first_error(&e);
        let observed = format!("build-fails:{}", error_class(&line));
        if let Some(k) = kf.matches("C10", &format!("compile:{backend}"), &observed, &tags) {
            acc.known(&k.id);
        }
    }
}

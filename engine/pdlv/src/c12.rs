//! C12 - parser fidelity: AST is exactly what was written, with truthful source ranges.
use crate::compile::*;
use crate::inproc::*;
use crate::report::*;
use pdlv_core::choice::Src;
use pdlv_core::evidence::{fnv, Acc};
use pdlv_core::gen::*;
use pdlv_core::model::*;
use pdlv_core::print::*;
use serde_json::{json, Value};

fn viol(text: &str, op: &str, observed: &str, detail: String, d: &Desc) -> Viol {
    Viol {
        message: format!("{op}: {observed}: {detail}"),
        record: json!({"property": "C12", "op": op, "observed": observed, "detail": detail, "text": text, "model": d, "type": Value::Null, "signature": format!("C12|{op}|{observed}")}),
    }
}

fn walk_locs(v: &Value, out: &mut Vec<Value>) {
    match v {
        Value::Object(o) => {
            if let Some(l) = o.get("loc") {
                out.push(l.clone());
            }
            for (_, x) in o {
                walk_locs(x, out);
            }
        }
        Value::Array(a) => a.iter().for_each(|x| walk_locs(x, out)),
        _ => {}
    }
}

fn loc_at<'a>(ast: &'a Value, path: &str) -> Option<&'a Value> {
    if path == "endianness" {
        return ast.get("endianness")?.get("loc");
    }
    let mut cur: &Value = ast;
    for (i, seg) in path.split('/').enumerate() {
        let (kind, idx) = seg.split_at(1);
        if seg == "cond" {
            cur = cur.get("cond")?;
            continue;
        }
        let idx: usize = idx.parse().ok()?;
        cur = match (i, kind) {
            (0, "d") => ast.get("declarations")?.get(idx)?,
            (_, "f") => cur.get("fields")?.get(idx)?,
            (_, "c") => cur.get("constraints")?.get(idx)?,
            (_, "t") | (_, "s") => cur.get("tags")?.get(idx)?,
            _ => return None,
        };
    }
    cur.get("loc")
}

pub fn check_text(d: &Desc, laid: &Laid, toks: &Tokens, acc: &mut Acc, label: &str) -> Result<(), Viol> {
    let text = &laid.text;
    let parsed = guarded(|| parse("c12.pdl", text));
    let (file, _db) = match parsed {
        Err(p) => return Err(viol(text, "parse", "panic", p, d)),
        Ok(Err(e)) => {
            acc.eval(label, "rejected");
            return Err(viol(text, "parse", "rejects-valid-syntax", e, d));
        }
        Ok(Ok(x)) => x,
    };
    let ast = ast_json(&file);
    // (a) content
    match pdlv_core::astjson::desc_from_ast_json(&ast) {
        Ok(back) => {
            if &back != d {
                let (a, b) = (serde_json::to_string(&back).unwrap(), serde_json::to_string(d).unwrap());
                return Err(viol(text, "parse", "ast-differs", format!("parsed {a} written {b}"), d));
            }
        }
        Err(e) => return Err(viol(text, "parse", "ast-shape", e, d)),
    }
    // (b) locations of the nodes the printer recorded
    let len = text.len();
    for n in &toks.nodes {
        let Some(loc) = loc_at(&ast, &n.path) else { return Err(viol(text, "loc", "node-missing", n.path.clone(), d)) };
        let (so, eo) = (loc["start"]["offset"].as_u64().unwrap_or(u64::MAX) as usize, loc["end"]["offset"].as_u64().unwrap_or(u64::MAX) as usize);
        let first = laid.spans[n.first].0;
        let last_end = laid.spans[n.last].1;
        let next_start = laid.spans.get(n.last + 1).map(|s| s.0).unwrap_or(len);
        if so != first || eo < last_end || eo > next_start {
            return Err(viol(text, "loc", "range-does-not-cover-node", format!("{} ({:?}): loc {so}..{eo}, node tokens {first}..{last_end}, next token at {next_start}", n.path, n.k), d));
        }
    }
    // every loc anywhere: ordered, inside the file, line/column consistent with the offset
    let mut locs = vec![];
    walk_locs(&ast, &mut locs);
    let bytes = text.as_bytes();
    for l in &locs {
        for end in ["start", "end"] {
            let o = l[end]["offset"].as_u64().unwrap_or(u64::MAX) as usize;
            if o > len {
                return Err(viol(text, "loc", "offset-outside-file", format!("{l}"), d));
            }
            let line = bytes[..o].iter().filter(|b| **b == b'\n').count();
            let col = o - bytes[..o].iter().rposition(|b| *b == b'\n').map(|p| p + 1).unwrap_or(0);
            if l[end]["line"].as_u64() != Some(line as u64) || l[end]["column"].as_u64() != Some(col as u64) {
                return Err(viol(text, "loc", "line-column-inconsistent", format!("{l}: offset {o} is line {line} column {col}"), d));
            }
        }
        if l["start"]["offset"].as_u64() > l["end"]["offset"].as_u64() {
            return Err(viol(text, "loc", "range-not-ordered", format!("{l}"), d));
        }
    }
    // comments
    let cs = ast["comments"].as_array().cloned().unwrap_or_default();
    if cs.len() != laid.comments.len() {
        return Err(viol(text, "comments", "count-differs", format!("{} reported, {} written", cs.len(), laid.comments.len()), d));
    }
    for (c, (s, e, t)) in cs.iter().zip(&laid.comments) {
        if c["text"].as_str() != Some(t.as_str()) || c["loc"]["start"]["offset"].as_u64() != Some(*s as u64) || c["loc"]["end"]["offset"].as_u64() != Some(*e as u64) {
            return Err(viol(text, "comments", "comment-differs", format!("{c} vs {s}..{e} {t:?}"), d));
        }
    }
    // (c) print / parse round trip under pdl's own structural equality
    let re = plain(d);
    match guarded(|| parse("c12b.pdl", &re)) {
        Ok(Ok((f2, _))) => {
            if f2 != file {
                return Err(viol(text, "reparse", "round-trip-differs", re, d));
            }
        }
        Ok(Err(e)) => return Err(viol(&re, "reparse", "rejects-printed-ast", e, d)),
        Err(p) => return Err(viol(&re, "reparse", "panic", p, d)),
    }
    acc.eval(label, "ok");
    if laid.hex_literals > 0 && !laid.comments.is_empty() && laid.nonspace_seps > 0 {
        acc.nontrivial(fnv(&[text.as_bytes()]), || json!({"text": text, "class": label}));
    }
    Ok(())
}

/// near-miss operators: each yields a text outside the grammar (DESIGN appendix D)
fn near_miss(toks: &Tokens, s: &mut Src) -> Option<(String, String)> {
    let n = toks.toks.len();
    let join = |ts: &[String]| ts.join(" ") + "\n";
    let mut t: Vec<String> = toks.toks.iter().map(|x| x.text.clone()).collect();
    let op = s.below(10);
    let find = |pred: &dyn Fn(usize) -> bool, s: &mut Src| -> Option<usize> {
        let c: Vec<usize> = (0..n).filter(|i| pred(*i)).collect();
        if c.is_empty() {
            None
        } else {
            Some(*s.pick(&c))
        }
    };
    match op {
        0 => {
            // delete a `,` between two items (not a trailing comma: the printer emits none)
            let i = find(&|i| toks.toks[i].text == ",", s)?;
            t.remove(i);
            Some((join(&t), "delete-comma".into()))
        }
        1 => {
            // delete `:` of `id : width`, `enum E : w`
            let i = find(&|i| toks.toks[i].text == ":" && i + 1 < n && toks.toks[i + 1].text != "[", s)?;
            // `packet A : B {` -> `packet A B {` is also outside the grammar
            t.remove(i);
            Some((join(&t), "delete-colon".into()))
        }
        2 => {
            let i = find(&|i| ["{", "}", "(", ")", "[", "]"].contains(&toks.toks[i].text.as_str()), s)?;
            // deleting `{` `}` of an empty group-field constraint list cannot happen: the printer omits empty lists
            t.remove(i);
            Some((join(&t), "delete-bracket".into()))
        }
        3 => {
            // glue a keyword to its identifier
            let i = find(&|i| toks.toks[i].k == TK::KwSpace && i > 0, s)?;
            let glued = format!("{}{}", t[i], t[i + 1]);
            t[i] = glued;
            t.remove(i + 1);
            Some((join(&t), "glue-keyword".into()))
        }
        4 => {
            let i = find(&|i| matches!(toks.toks[i].k, TK::Int(_)), s)?;
            t[i] = (*s.pick(&["0x", "0xg1", "1_000", "0X"])).to_string();
            Some((join(&t), "bad-integer".into()))
        }
        5 => {
            // identifier starting with a digit, in declaration-name position
            let i = find(&|i| i > 0 && toks.toks[i - 1].k == TK::KwSpace && toks.toks[i].k == TK::Word, s)?;
            t[i] = format!("9{}", t[i]);
            Some((join(&t), "digit-identifier".into()))
        }
        6 => {
            let mut x = join(&t);
            x.push_str(if s.bool() { "/* never closed" } else { "custom_field Z \"unterminated" });
            Some((x, "unterminated".into()))
        }
        7 => {
            if s.bool() {
                t.remove(0);
                Some((join(&t), "no-endianness".into()))
            } else {
                t.insert(1, t[0].clone());
                // `little_endian_packets little_endian_packets` : second one is not a declaration
                Some((join(&t), "two-endianness".into()))
            }
        }
        8 => {
            t.push((*s.pick(&["}", ",", "42", ")", "="])).to_string());
            Some((join(&t), "stray-token".into()))
        }
        _ => {
            // range with a missing upper bound: `A = 1 ..` followed by `,` or `}`
            let i = find(&|i| toks.toks[i].text == ".." && i + 1 < n && matches!(toks.toks[i + 1].k, TK::Int(_)) && i > 0 && matches!(toks.toks[i - 1].k, TK::Int(_)), s)?;
            t.remove(i + 1);
            Some((join(&t), "range-missing-bound".into()))
        }
    }
}

pub fn run(tier: &str, seed: u64) -> i32 {
    let t0 = std::time::Instant::now();
    let (kf, _) = crate::rustharness::load_kf();
    let thorough = tier == "thorough";
    let n_valid = if thorough { 400_000 } else { 40_000 };
    let n_miss = if thorough { 160_000 } else { 16_000 };
    std::panic::set_hook(Box::new(|_| {}));
    let mut partial = run_parallel("C12", seed, "C12/valid", n_valid, 900, |st, acc| {
        let mut s = Src::new(st);
        let big = s.bool();
        let (d, label) = if s.below(3) == 0 {
            (gen_absurd(&st[8..], big), "absurd-ast")
        } else {
            (gen_desc(&st[8..], &Profile::front_end(), Some(s.below(N_STRATA)), big).0, "well-formed-ast")
        };
        let toks = tokens(&d);
        let mut ls = Src::new(&st[600..]);
        let trailing = ls.bool();
        let laid = random_layout(&toks, &mut ls, trailing);
        check_text(&d, &laid, &toks, acc, label)
    });
    let miss = run_parallel("C12", seed, "C12/near-miss", n_miss, 700, |st, acc| {
        let mut s = Src::new(st);
        let d = gen_desc(&st[8..], &Profile::front_end(), Some(s.below(N_STRATA)), s.bool()).0;
        let toks = tokens(&d);
        let mut ms = Src::new(&st[600..]);
        let Some((text, op)) = near_miss(&toks, &mut ms) else {
            acc.skip("near-miss-operator-not-applicable");
            return Ok(());
        };
        match guarded(|| parse("c12m.pdl", &text)) {
            Err(p) => Err(viol(&text, "parse", "panic-on-near-miss", p, &d)),
            Ok(Ok(_)) => {
                acc.eval(&format!("near-miss:{op}"), "accepted");
                Err(viol(&text, "parse", "accepts-near-miss", op, &d))
            }
            Ok(Err(_)) => {
                acc.eval(&format!("near-miss:{op}"), "rejected");
                acc.nontrivial(fnv(&[text.as_bytes()]), || json!({"text": text, "class": format!("near-miss:{op}")}));
                Ok(())
            }
        }
    });
    partial.merge(miss);
    partial.programs = partial.evaluations;
    let v = Verdict {
        property: "C12".into(),
        tier: tier.into(),
        seed,
        partial,
        rule: "model ASTs (well-formed front-end descriptions and semantically absurd ones) printed with randomized concrete syntax: separators from {nothing where legal, space, tab, CR, LF, CRLF, line and block comments}, literal spelling from {decimal, leading zeros, 0x lower/upper digits, 0X}, trailing commas; the printer records the byte span of every token. Oracle: parse succeeds; the AST (via an independent JSON->model adapter) equals the model; every recorded node's loc starts at its first token and ends between its last token's end and the next token's start; every loc is ordered, inside the file, with line/column recomputed from the offset; comments reported with exact text and span; printing the AST canonically and re-parsing gives an equal File under pdl's own PartialEq. Near-miss texts (10 operators, each outside the grammar by construction) must be rejected without panic. Non-trivial: valid texts with >= 1 hex literal, >= 1 comment and >= 1 non-space separator, and rejected near-misses; distinct by text.".into(),
        assumptions: vec!["keywords are followed by a literal whitespace character in generated layouts (grammar: ENUM = @{ \"enum\" ~ WHITESPACE }); a comment directly after a keyword is outside the explored domain".into(), "`test` declarations are not generated (the parser drops them)".into()],
        extra: json!({}),
        wall_s: t0.elapsed().as_secs_f64(),
        known_reproduced: vec![],
    };
    finish(v, &kf)
}

//! C16 - static size annotations (analyzer::Schema) are sound.
use crate::compile::*;
use crate::inproc::*;
use crate::report::*;
use pdl_compiler::analyzer::{self, Size};
use pdl_compiler::ast;
use pdlv_core::choice::Src;
use pdlv_core::evidence::{fnv, Acc};
use pdlv_core::gen::*;
use pdlv_core::model::*;
use pdlv_core::print::plain;
use pdlv_core::refcodec::Ref;
use pdlv_core::values::gen_encodable;
use serde_json::{json, Value};

#[derive(Clone, Copy, Debug, PartialEq, Eq)]
pub enum Cls {
    Static(u64),
    Dynamic,
    Unknown,
}

impl Cls {
    fn add(self, o: Cls) -> Cls {
        match (self, o) {
            (Cls::Unknown, _) | (_, Cls::Unknown) => Cls::Unknown,
            (Cls::Dynamic, _) | (_, Cls::Dynamic) => Cls::Dynamic,
            (Cls::Static(a), Cls::Static(b)) => Cls::Static(a + b),
        }
    }
    fn times(self, n: u64) -> Cls {
        match self {
            Cls::Static(a) => Cls::Static(a * n),
            o => o,
        }
    }
}

fn of(s: Size) -> Cls {
    match s {
        Size::Static(n) => Cls::Static(n as u64),
        Size::Dynamic => Cls::Dynamic,
        Size::Unknown => Cls::Unknown,
    }
}

/// R8: size class of a type used as field type / array element, derived from the model alone
fn ty_class(d: &Desc, ty: &str, depth: usize) -> Cls {
    if depth > 12 {
        return Cls::Unknown;
    }
    match d.get(ty) {
        Some(Decl::Enum { width, .. }) => Cls::Static(*width as u64),
        Some(Decl::Custom { width: Some(w), .. }) => Cls::Static(*w as u64),
        Some(Decl::Custom { width: None, .. }) => Cls::Dynamic,
        Some(Decl::Checksum { width, .. }) => Cls::Static(*width as u64),
        Some(Decl::Record { .. }) => {
            // whole image: every level's own fields, the last level's payload
            let Ok(fl) = d.flat(ty) else { return Cls::Unknown };
            let mut c = Cls::Static(0);
            let n = fl.levels.len();
            for (i, l) in fl.levels.iter().enumerate() {
                let (own, pay) = level_class(d, l, depth + 1);
                c = c.add(own);
                if i + 1 == n {
                    c = c.add(pay);
                }
            }
            c
        }
        _ => Cls::Unknown,
    }
}

fn field_class(d: &Desc, level: &Level, f: &FF, depth: usize) -> Cls {
    if f.cond.is_some() {
        return Cls::Dynamic;
    }
    if let Some(w) = f.bits() {
        return Cls::Static(w as u64);
    }
    let delimited = |id: &str| level.fields.iter().any(|g| matches!(&g.k, FK::Size { target, .. } | FK::Count { target, .. } if target == id));
    match &f.k {
        FK::Padding { .. } | FK::Checksum { .. } => Cls::Static(0),
        FK::Array { id, elem, count, .. } => match count {
            Some(c) => match elem {
                Elem::Bits(w) => Cls::Static(*w as u64 * c),
                Elem::Ty(t) => ty_class(d, t, depth + 1).times(*c),
            },
            None => {
                if delimited(id) {
                    Cls::Dynamic
                } else {
                    Cls::Unknown
                }
            }
        },
        FK::Struct { ty, .. } | FK::Custom { ty, .. } => ty_class(d, ty, depth + 1),
        FK::Payload { body, .. } => {
            if delimited(if *body { "_body_" } else { "_payload_" }) {
                Cls::Dynamic
            } else {
                Cls::Unknown
            }
        }
        _ => Cls::Unknown,
    }
}

/// (size of the own non-payload fields with paddings counted at their declared size, payload class)
fn level_class(d: &Desc, level: &Level, depth: usize) -> (Cls, Cls) {
    let mut own = Cls::Static(0);
    let mut pay = Cls::Static(0);
    for f in &level.fields {
        match &f.k {
            FK::Payload { .. } => pay = field_class(d, level, f, depth),
            FK::Array { padding: Some(p), .. } => own = own.add(Cls::Static(8 * p)),
            _ => own = own.add(field_class(d, level, f, depth)),
        }
    }
    (own, pay)
}

fn viol(text: &str, op: &str, observed: &str, detail: String, d: &Desc) -> Viol {
    Viol {
        message: format!("{op}: {observed}: {detail}"),
        record: json!({"property": "C16", "op": op, "observed": observed, "detail": detail, "pdl": text, "model": d, "type": Value::Null, "signature": format!("C16|{op}|{observed}")}),
    }
}

fn same_kind(a: &ast::FieldDesc, f: &FF) -> bool {
    use ast::FieldDesc as A;
    match (a, &f.k) {
        (A::Scalar { .. }, FK::Scalar { .. })
        | (A::Flag { .. }, FK::Flag { .. })
        | (A::Typedef { .. }, FK::Enum { .. } | FK::Struct { .. } | FK::Custom { .. })
        | (A::FixedScalar { .. } | A::FixedEnum { .. }, FK::Fixed { .. })
        | (A::Reserved { .. }, FK::Reserved { .. })
        | (A::Size { .. }, FK::Size { .. })
        | (A::Count { .. }, FK::Count { .. })
        | (A::ElementSize { .. }, FK::ElemSize { .. })
        | (A::Array { .. }, FK::Array { .. })
        | (A::Payload { .. } | A::Body, FK::Payload { .. })
        | (A::Padding { .. }, FK::Padding { .. })
        | (A::Checksum { .. }, FK::Checksum { .. }) => true,
        _ => false,
    }
}

pub fn check(d: &Desc, vs: &mut Src, acc: &mut Acc) -> Result<(), Viol> {
    let text = plain(d);
    let (f, _db) = match guarded(|| parse("c16.pdl", &text)) {
        Ok(Ok(x)) => x,
        Ok(Err(e)) => return Err(viol(&text, "parse", "rejects", e, d)),
        Err(p) => return Err(viol(&text, "parse", "panic", p, d)),
    };
    let af = match guarded(|| analyze(&f)) {
        Ok(Ok(af)) => af,
        Ok(Err(_)) => {
            acc.skip("rejected-by-analyzer (C09's business)");
            return Ok(());
        }
        Err(p) => return Err(viol(&text, "analyze", "panic", p, d)),
    };
    let schema = match guarded(|| analyzer::Schema::new(&af)) {
        Ok(s) => s,
        Err(p) => return Err(viol(&text, "Schema::new", "panic", p, d)),
    };
    let scope = analyzer::Scope::new(&af).map_err(|_| viol(&text, "Scope::new", "fails", String::new(), d))?;
    let r = Ref::new(d);
    let mut nontrivial = false;
    for decl in &af.declarations {
        let Some(id) = decl.id() else { continue };
        if !matches!(decl.desc, ast::DeclDesc::Packet { .. } | ast::DeclDesc::Struct { .. }) {
            continue;
        }
        let Ok(fl) = d.flat(id) else { return Err(viol(&text, "model", "cannot-flatten", id.into(), d)) };
        let level = fl.last();
        let afields: Vec<&ast::Field> = decl.fields().collect();
        if afields.len() != level.fields.len() || afields.iter().zip(&level.fields).any(|(a, m)| !same_kind(&a.desc, m)) {
            return Err(viol(&text, "zip", "analyzed-fields-differ-from-flattened-model", format!("{id}: {} analyzed fields, {} model fields", afields.len(), level.fields.len()), d));
        }
        for (a, m) in afields.iter().zip(&level.fields) {
            let got = of(schema.field_size(a.key));
            let want = field_class(d, level, m, 0);
            if got != want {
                return Err(viol(&text, "field_size", "class-differs", format!("{id}.{:?}: schema {:?}, model {:?}", m.k, got, want), d));
            }
            let pad = schema.padded_size(a.key).map(|x| x as u64);
            let wantpad = match &m.k {
                FK::Array { padding: Some(p), .. } => Some(8 * p),
                _ => None,
            };
            if pad != wantpad {
                return Err(viol(&text, "padded_size", "differs", format!("{id}.{:?}: schema {:?}, model {:?}", m.k, pad, wantpad), d));
            }
            if let FK::Array { id: aid, elem, count, .. } = &m.k {
                let es = analyzer::element_size(&scope, &schema, decl, a);
                let has_esz = level.fields.iter().any(|g| matches!(&g.k, FK::ElemSize { target, .. } if target == aid));
                let want_es = match elem {
                    Elem::Bits(w) => format!("Static({})", w / 8),
                    Elem::Ty(t) => match ty_class(d, t, 0) {
                        Cls::Static(b) => format!("Static({})", b / 8),
                        _ if has_esz => "Dynamic".into(),
                        _ => "Unknown".into(),
                    },
                };
                if format!("{:?}", es) != want_es {
                    return Err(viol(&text, "element_size", "differs", format!("{id}.{aid}: {:?} vs {want_es}", es), d));
                }
                let asz = analyzer::array_size(decl, a);
                let want_as = match count {
                    Some(c) => format!("StaticCount({c})"),
                    None => {
                        if level.fields.iter().any(|g| matches!(&g.k, FK::Count { target, .. } if target == aid)) {
                            "DynamicCount".into()
                        } else if level.fields.iter().any(|g| matches!(&g.k, FK::Size { target, .. } if target == aid)) {
                            "DynamicSize".into()
                        } else {
                            "Unknown".into()
                        }
                    }
                };
                if format!("{:?}", asz) != want_as {
                    return Err(viol(&text, "array_size", "differs", format!("{id}.{aid}: {:?} vs {want_as}", asz), d));
                }
            }
        }
        let (own, pay) = level_class(d, level, 0);
        let mut parents = Cls::Static(0);
        for l in &fl.levels[..fl.levels.len() - 1] {
            parents = parents.add(level_class(d, l, 0).0);
        }
        for (name, got, want) in [("decl_size", of(schema.decl_size(decl.key)), own), ("payload_size", of(schema.payload_size(decl.key)), pay), ("parent_size", of(schema.parent_size(decl.key)), parents), ("total_size", of(schema.total_size(decl.key)), own.add(pay).add(parents))] {
            if got != want {
                return Err(viol(&text, name, "class-differs", format!("{id}: schema {:?}, model {:?}", got, want), d));
            }
        }
        let total = of(schema.total_size(decl.key));
        if !matches!((own, pay, parents), (Cls::Static(_), Cls::Static(0), Cls::Static(0))) || level.fields.iter().any(|f| matches!(&f.k, FK::Array { padding: Some(_), .. })) {
            nontrivial = true;
        }
        // empirical: a constant total size n means every encoding of every value is exactly n bits
        let mut encs = 0;
        for _ in 0..12 {
            if let Some((v, e)) = gen_encodable(&r, id, vs) {
                encs += 1;
                if let Cls::Static(n) = total {
                    if e.bytes.len() as u64 * 8 != n {
                        return Err(viol(&text, "total_size", "static-size-contradicted-by-an-encoding", format!("{id}: Static({n}) but value {v} encodes to {} octets", e.bytes.len()), d));
                    }
                }
                // per field: bit-fields of the last level occupy their declared width (layout map)
                let _ = v;
            }
        }
        acc.eval(&format!("decl:{}", match total { Cls::Static(_) => "static", Cls::Dynamic => "dynamic", Cls::Unknown => "unknown" }), &format!("agree ({encs} encodings)"));
    }
    if nontrivial {
        acc.nontrivial(fnv(&[text.as_bytes()]), || json!({"pdl": text}));
    }
    Ok(())
}

pub fn run(tier: &str, seed: u64) -> i32 {
    let t0 = std::time::Instant::now();
    let (kf, _) = crate::rustharness::load_kf();
    let n = if tier == "thorough" { 200_000 } else { 20_000 };
    std::panic::set_hook(Box::new(|_| {}));
    let mut partial = run_parallel("C16", seed, "C16", n, 1000, |st, acc| {
        let mut s = Src::new(st);
        let big = s.bool();
        let stratum = s.below(N_STRATA);
        let (d, _) = gen_desc(&st[8..], &Profile::front_end(), Some(stratum), big);
        let mut vs = Src::new(&st[650..]);
        acc.p.programs += 1;
        check(&d, &mut vs, acc)
    });
    if partial.programs == 0 {
        partial.programs = n as u64;
    }
    let v = Verdict {
        property: "C16".into(),
        tier: tier.into(),
        seed,
        partial,
        rule: "accepted front-end descriptions (no target compilation); for every packet and struct the analyzed fields are zipped with the model's flattened field list and every public Schema query (field_size, padded_size, decl_size, payload_size, parent_size, total_size, element_size, array_size) is compared with a size lattice derived from the model alone (Static(n) / Dynamic = delimited by a size field, count field, condition flag or unsized custom type / Unknown = nothing delimits it); for declarations with a constant total size n, 12 generated in-range values must each encode (reference encoder) to exactly n bits, paddings counted at their declared size. Non-trivial: descriptions with a non-static part, a padded array or a parent; distinct by text.".into(),
        assumptions: vec!["arrays under an _elementsize_ field are classified like the analyzer does (by size/count field only): the statement does not list element-size fields among the delimiters".into()],
        extra: json!({}),
        wall_s: t0.elapsed().as_secs_f64(),
        known_reproduced: vec![],
    };
    finish(v, &kf)
}

//! C07 - all backends agree on the wire format: pure differential between the generated Rust,
//! Python and C++ code (Java: see DESIGN, compared on its own profile in C19 only).
use crate::compile::*;
use crate::cxxharness::*;
use crate::remote::*;
use crate::report::*;
use crate::rustharness::{self, load_kf, work_dir, DrawnBatch};
use pdlv_core::choice::{run_streams, Src};
use pdlv_core::evidence::{fnv, Acc, Partial};
use pdlv_core::gen::*;
use pdlv_core::harness::{Batch, BatchDesc};
use pdlv_core::props::{gen_case, hex, type_tags, Input};
use pdlv_core::refcodec::{Events, Ref};
use serde_json::{json, Value};
use std::collections::BTreeSet;

pub fn common_profile() -> Profile {
    Profile { name: "common".into(), array_modifier: false, enum_needs_value: true, ..Profile::cxx() }
}

fn verdict_dec(be: &str, d: &pdlv_core::model::Desc, ty: &str, r: &RDec) -> (String, Option<Value>) {
    match r {
        RDec::Ok { class, value, .. } => {
            if class == ty || be != "python" {
                ("accept".into(), Some(value.clone()))
            } else if d.descendants_of(ty).contains(class) {
                // a more derived class consumed the payload: compare everything but the payload
                let mut v = value.clone();
                if let Some(o) = v.as_object_mut() {
                    o.insert("payload".into(), Value::String("<consumed by the child>".into()));
                }
                ("accept".into(), Some(v))
            } else {
                // Python parsed the root and stopped above `ty`: the octets are not a `ty`
                ("reject".into(), None)
            }
        }
        RDec::Err { class, proper, .. } => {
            if *proper || be != "python" {
                ("reject".into(), None)
            } else {
                (format!("improper-error:{class}"), None)
            }
        }
        RDec::Crash(m) => (if crash_kind(m) == "crash" { format!("crash:{}", m.chars().take(60).collect::<String>()) } else { crash_kind(m) }, None),
    }
}

pub fn run(tier: &str, seed: u64) -> i32 {
    let t0 = std::time::Instant::now();
    let (kf, _) = load_kf();
    let thorough = tier == "thorough";
    std::panic::set_hook(Box::new(|_| {}));
    let dir = work_dir().join(format!("c07-{tier}-{seed}"));
    // C++ (with compiled-in values) decides the description set
    let pairs = if thorough { 48 } else { 6 };
    let per_type = if thorough { 100 } else { 50 };
    let _ = std::fs::remove_dir_all(&dir);
    // draw with the common profile: reuse c14::prepare's machinery with another profile
    let (descs, built, mut dropped) = prepare_common(seed, tier, pairs, per_type, &dir.join("cxx"));
    // Python modules
    let pydir = dir.join("py");
    let _ = std::fs::create_dir_all(&pydir);
    let mut py_ok = BTreeSet::new();
    for rd in &descs {
        let Ok((f, db)) = parse(&format!("m{}.pdl", rd.idx), &rd.text) else { continue };
        let Ok(Ok(af)) = guarded(|| analyze(&f)) else { continue };
        if let Ok(code) = guarded(|| pdl_compiler::backends::python::generate(&db, &af, None, &[])) {
            if std::fs::write(pydir.join(format!("m{}.py", rd.idx)), code).is_ok() {
                py_ok.insert(rd.idx);
            }
        }
    }
    // Rust harness
    let mut bdescs = vec![];
    let mut code = vec![];
    for rd in &descs {
        match rustharness::compile_rust(&format!("d{}.pdl", rd.idx), &rd.text) {
            Ok(c) => {
                bdescs.push(BatchDesc { idx: rd.idx, desc: rd.desc.clone(), text: rd.text.clone(), profile: "common".into(), strata: rd.strata.clone(), twin: None, origin: "gen".into() });
                code.push((rd.idx, c));
            }
            Err(_) => dropped += 1,
        }
    }
    // module indices must be dense for the harness crate: pad with empty entries is not possible, so renumber
    // is avoided by keeping idx == position (descs are filtered consistently below)
    let keep: Vec<usize> = bdescs.iter().map(|b| b.idx).filter(|i| py_ok.contains(i)).collect();
    let descs: Vec<&RemoteDesc> = descs.iter().filter(|d| keep.contains(&d.idx)).collect();
    // the harness crate wants module k for position k: build a batch whose positions are the original indices
    let maxidx = descs.iter().map(|d| d.idx).max().unwrap_or(0);
    let mut full_descs = vec![];
    let mut full_code = vec![];
    for i in 0..=maxidx {
        match (bdescs.iter().find(|b| b.idx == i), code.iter().find(|c| c.0 == i)) {
            (Some(b), Some(c)) => {
                full_descs.push(b.clone());
                full_code.push(c.1.clone());
            }
            _ => {
                // placeholder: an empty description keeps positions aligned
                let d = pdlv_core::model::Desc { big: false, decls: vec![] };
                full_descs.push(BatchDesc { idx: i, desc: d, text: "little_endian_packets\n".into(), profile: "common".into(), strata: vec![], twin: None, origin: "placeholder".into() });
                full_code.push(rustharness::compile_rust("e.pdl", "little_endian_packets\n").unwrap_or_default());
            }
        }
    }
    let rb = match rustharness::build(&format!("c07-{tier}-{seed}"), DrawnBatch { batch: Batch { seed, tier: tier.into(), descs: full_descs }, code: full_code, dropped: vec![] }) {
        Ok(b) => b,
        Err(e) => {
            eprintln!("infrastructure: rust harness: {e}");
            return 2;
        }
    };
    let workers = 6usize;
    let kfr = &kf;
    let parts: Vec<Result<Partial, String>> = std::thread::scope(|sc| {
        let mut hs = vec![];
        for w in 0..workers {
            let descs = &descs;
            let built = &built;
            let rb = &rb;
            let pydir = &pydir;
            hs.push(sc.spawn(move || -> Result<Partial, String> {
                let mut acc = Acc::new("C07");
                let mut rust = RustTarget::new(&rb.exe, &rb.batch_file)?;
                let mut py = PyTarget::new(pydir)?;
                let mut cxx = CxxTarget::new(built);
                for rd in descs.iter().filter(|d| d.idx % workers == w) {
                    if rb.skip.contains(&rd.idx) {
                        continue;
                    }
                    let r = Ref::new(&rd.desc);
                    acc.p.programs += 1;
                    for ty in rd.desc.record_ids() {
                        acc.p.types += 1;
                        let chain = rd.desc.chain(&ty).unwrap_or_default();
                        let root = chain.first().cloned().unwrap_or(ty.clone());
                        let mut tags = type_tags(&r, &ty);
                        tags.extend(type_tags(&r, &root));
                        for dsc in rd.desc.descendants_of(&root) {
                            tags.extend(type_tags(&r, &dsc));
                        }
                        let alias_only = rd.desc.flat(&ty).map(|fl| fl.levels.len() > 1 && fl.last().fields.iter().all(|f| matches!(f.k, pdlv_core::model::FK::Payload { .. }))).unwrap_or(false);
                        // ---- serializers on the compiled-in values
                        for v in built.baked.get(&rd.idx).and_then(|m| m.get(&ty)).cloned().unwrap_or_default() {
                            let outs: Vec<(&str, REnc)> = vec![("rust", rust.enc(rd.idx, &ty, &v)), ("python", py.enc(rd.idx, &ty, &v)), ("cxx", cxx.enc(rd.idx, &ty, &v))];
                            let show = |e: &REnc| match e {
                                REnc::Ok { bytes, .. } => hex(bytes),
                                REnc::Err { class, .. } => format!("refuses:{class}"),
                                REnc::Crash(m) => format!("crash:{}", m.chars().take(60).collect::<String>()),
                            };
                            let shown: Vec<String> = outs.iter().map(|(_, e)| show(e)).collect();
                            let all_ok = outs.iter().all(|(_, e)| matches!(e, REnc::Ok { .. }));
                            let agree = shown.iter().all(|x| x == &shown[0]) || outs.iter().all(|(_, e)| matches!(e, REnc::Err { .. }));
                            acc.eval("serialize:value", if agree { "agree" } else { "disagree" });
                            if all_ok && agree {
                                acc.nontrivial(fnv(&[rd.text.as_bytes(), ty.as_bytes(), v.to_string().as_bytes()]), || json!({"description": rd.text, "type": ty, "value": v, "octets": shown[0]}));
                            }
                            if !agree {
                                let (_, ev) = r.encode_events(&ty, &v);
                                let mut all = tags.clone();
                                all.extend(ev.iter().map(|e| format!("event:{e}")));
                                let minority = if shown[0] == shown[1] { "cxx" } else if shown[0] == shown[2] { "python" } else { "rust" };
                                let outcome = format!("serializers-disagree:{minority}-differs");
                                match kfr.matches("C07", "serialize", &outcome, &all) {
                                    Some(k) => acc.known(&k.id),
                                    None => {
                                        if acc.p.violations.len() < 4 {
                                            acc.p.violations.push(json!({"property": "C07", "seed": seed, "pdl": rd.text, "model": rd.desc, "type": ty, "op": "serialize", "input": {"json": v}, "observed": outcome,
                                                "detail": format!("rust {} python {} cxx {}", shown[0], shown[1], shown[2]), "tags": all.iter().cloned().collect::<Vec<_>>(), "signature": format!("C07|serialize|{outcome}")}));
                                        }
                                    }
                                }
                            }
                        }
                        // ---- parsers on generated byte strings
                        let tag = format!("C07/{}/{}", rd.idx, ty);
                        let failed = std::cell::Cell::new(false);
                        let cell = std::cell::RefCell::new((&mut acc, &mut rust, &mut py, &mut cxx));
                        let mut eval = |st: &[u32], record: bool| -> Result<(), (String, Value)> {
                            let mut s = Src::new(st);
                            let Some(case) = gen_case("C04", &r, &ty, &mut s) else { return Ok(()) };
                            let Input::Bytes(b) = &case.input else { return Ok(()) };
                            let mut g = cell.borrow_mut();
                            let (acc, rust, py, cxx) = &mut *g;
                            let dr = rust.dec(rd.idx, &ty, &root, b);
                            let dp = py.dec(rd.idx, &ty, &root, b);
                            let dc = cxx.dec(rd.idx, &ty, &root, b);
                            if matches!(dp, RDec::Crash(_)) {
                                let _ = py.restart();
                            }
                            if matches!(dc, RDec::Crash(_)) {
                                let _ = cxx.restart();
                            }
                            let (vr, jr) = verdict_dec("rust", &rd.desc, &ty, &dr);
                            let (vp, jp) = verdict_dec("python", &rd.desc, &ty, &dp);
                            let (vc, jc) = verdict_dec("cxx", &rd.desc, &ty, &dc);
                            let mut problems: Vec<String> = vec![];
                            // rust panics are C01's business: such inputs are not compared
                            if matches!(&dr, RDec::Err { class, .. } if class.starts_with("panic")) {
                                acc.frozen = failed.get() || record;
                                acc.eval(&format!("parse:{}", case.label), "rust-panics (C01's business)");
                                return Ok(());
                            }
                            if !alias_only && vp != vr {
                                problems.push(format!("python={vp},rust={vr}"));
                            }
                            if vc != vr {
                                problems.push(format!("cxx={vc},rust={vr}"));
                            }
                            if let Some(jr) = &jr {
                                if let (Some(jp), false) = (&jp, alias_only) {
                                    let mut jr2 = jr.clone();
                                    if jp.get("payload").map(|p| p.is_string()).unwrap_or(false) {
                                        if let Some(o) = jr2.as_object_mut() {
                                            o.remove("payload");
                                        }
                                    }
                                    if vp == "accept" && !sub_match(&jr2, jp) {
                                        problems.push("python-value-differs".into());
                                    }
                                }
                                if let Some(jc) = &jc {
                                    if vc == "accept" && !sub_match(jr, jc) {
                                        problems.push("cxx-value-differs".into());
                                    }
                                }
                            }
                            acc.frozen = failed.get() || record;
                            acc.eval(&format!("parse:{}", case.label), if problems.is_empty() { if vr == "accept" { "all accept, same values" } else { "all reject" } } else { "disagree" });
                            if problems.is_empty() && vr == "accept" {
                                acc.nontrivial(fnv(&[tag.as_bytes(), b]), || json!({"description": rd.text, "type": ty, "input": hex(b), "class": case.label, "value": jr}));
                            }
                            if !problems.is_empty() {
                                let mut ev = Events::new();
                                let _ = r.decode(&ty, b, true, &mut ev);
                                let mut all = tags.clone();
                                all.extend(ev.iter().map(|e| format!("event:{e}")));
                                for pb in &problems {
                                    let outcome = format!("parsers-disagree:{pb}");
                                    match kfr.matches("C07", "parse", &outcome, &all) {
                                        Some(k) => acc.known(&k.id),
                                        None => {
                                            failed.set(true);
                                            return Err((
                                                outcome.clone(),
                                                json!({"property": "C07", "seed": seed, "pdl": rd.text, "model": rd.desc, "type": ty, "op": "parse", "input": {"hex": hex(b)}, "class": case.label, "observed": outcome,
                                                    "detail": format!("rust {:?} | python {:?} | cxx {:?}", jr.as_ref().map(|j| j.to_string()).unwrap_or(vr.clone()), jp.as_ref().map(|j| j.to_string()).unwrap_or(vp.clone()), jc.as_ref().map(|j| j.to_string()).unwrap_or(vc.clone())),
                                                    "tags": all.iter().cloned().collect::<Vec<_>>(), "signature": format!("C07|parse|{outcome}")}),
                                            ));
                                        }
                                    }
                                }
                            }
                            Ok(())
                        };
                        let failure = run_streams(seed, &tag, if thorough { 2000 } else { 300 }, 400, |st| eval(st, false).map_err(|e| e.0));
                        let rec = failure.map(|f| match eval(&f.stream, true) {
                            Err((_, rec)) => rec,
                            Ok(()) => json!({"property": "C07", "pdl": rd.text, "type": ty, "observed": f.message, "note": "not reproduced from the minimal stream"}),
                        });
                        drop(eval);
                        drop(cell);
                        acc.frozen = false;
                        if let Some(rec) = rec {
                            acc.p.violations.push(rec);
                        }
                    }
                }
                Ok(acc.p)
            }));
        }
        hs.into_iter().map(|h| h.join().unwrap_or_else(|_| Err("worker panicked".into()))).collect()
    });
    let mut partial = Partial { property: "C07".into(), ..Default::default() };
    for p in parts {
        match p {
            Ok(p) => partial.merge(p),
            Err(e) => {
                eprintln!("infrastructure: {e}");
                return 2;
            }
        }
    }
    let _ = std::fs::remove_dir_all(&dir);
    // pairwise legs on the wider profiles two backends share
    match crate::c07p::run_legs(tier, seed, &kf) {
        Ok(p) => partial.merge(p),
        Err(e) => {
            eprintln!("infrastructure: pair legs: {e}");
            return 2;
        }
    }
    let v = Verdict {
        property: "C07".into(),
        tier: tier.into(),
        seed,
        partial,
        rule: "descriptions from the intersection of the Rust, Python and C++ profiles (LE/BE twins), compiled by all three generators. Pure differential: the reference model only produces inputs (valid encodings and their mutants) and event tags. Values (compiled into the C++ driver, sent as JSON to the Rust harness in serve mode and to the CPython driver): the three serializers emit identical octets or all refuse. Byte strings: the three parsers agree on acceptance of the octets as the given type (Python: parse_all on the root returns that type or a descendant) and, field by field, on the values (Rust's serde JSON is the key set). Pair legs: Rust x Python on the python profile (adds optional fields, size modifiers, struct inheritance ... that C++ lacks) and Rust x Java on the java-rt profile, values generated at run time and serialized by both, octet strings parsed by both (Java: a more derived or Unknown<X> class counts as accepting; a throw caused by a matching but malformed child is not compared). Non-trivial: values serialized identically by all, inputs accepted by all with equal values; distinct by (pair, type, input).".into(),
        assumptions: vec!["Java takes part pairwise with Rust on the java-rt profile only (its generator or javac refuses many shapes outside it, DESIGN section 7); descriptions refused by a generator or compiler are dropped (C10's business)".into(), "inputs on which the generated Rust panics are C01's business and are not compared".into()],
        extra: json!({"backends_compared": ["rust", "python", "cxx", "java (pairwise with rust)"], "dropped_descriptions": dropped}),
        wall_s: t0.elapsed().as_secs_f64(),
        known_reproduced: vec![],
    };
    finish(v, &kf)
}

fn prepare_common(seed: u64, tier: &str, pairs: usize, per_type: usize, dir: &std::path::Path) -> (Vec<RemoteDesc>, CxxBuilt, usize) {
    use pdlv_core::choice::draw_streams;
    use pdlv_core::values::gen_encodable;
    use std::collections::BTreeMap;
    let (descs, mut dropped) = crate::c13::draw(seed, tier, &common_profile(), "C07", pairs);
    let mut headers = BTreeMap::new();
    let mut baked: BTreeMap<usize, BTreeMap<String, Vec<Value>>> = BTreeMap::new();
    for rd in &descs {
        let Ok((f, db)) = parse(&format!("h{}.pdl", rd.idx), &rd.text) else { continue };
        let Ok(Ok(af)) = guarded(|| analyze(&f)) else { continue };
        match guarded(|| pdl_compiler::backends::cxx::generate(&db, &af, Some("ns"), &[], &[], &[])) {
            Ok(h) => {
                headers.insert(rd.idx, h);
            }
            Err(_) => {
                dropped += 1;
                continue;
            }
        }
        let r = Ref::new(&rd.desc);
        let mut m = BTreeMap::new();
        for ty in rd.desc.record_ids() {
            let mut vals: Vec<Value> = vec![];
            for st in draw_streams(seed, &format!("C07/values/{}/{ty}", rd.idx), per_type, 300) {
                let mut s = Src::new(&st);
                if let Some((v, _)) = gen_encodable(&r, &ty, &mut s) {
                    if !vals.contains(&v) {
                        vals.push(v);
                    }
                }
            }
            m.insert(ty, vals);
        }
        baked.insert(rd.idx, m);
    }
    let built = build_all(dir, &descs, baked, &headers);
    let descs: Vec<RemoteDesc> = descs.into_iter().filter(|d| built.exes.contains_key(&d.idx)).collect();
    (descs, built, dropped)
}

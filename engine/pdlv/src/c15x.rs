//! C15, Python and C++ legs: Enum.from_int and IsValid<Enum> over the value space.
use crate::compile::*;
use crate::remote::*;
use crate::rustharness::work_dir;
use pdlv_core::choice::draw_streams;
use pdlv_core::evidence::{fnv, Acc, Partial};
use pdlv_core::gen::*;
use pdlv_core::kf::Kf;
use pdlv_core::model::*;
use pdlv_core::print::plain;
use serde_json::json;
use std::collections::BTreeSet;
use std::io::Write;
use std::process::Command;

fn xs_for(width: u32, tags: &[Tag], seed: u64, key: &str, thorough: bool) -> (Vec<u64>, bool) {
    let backing: u32 = match width {
        0..=8 => 8,
        9..=16 => 16,
        17..=32 => 32,
        _ => 64,
    };
    if backing <= 16 && (width <= 12 || thorough) {
        return ((0..(1u64 << backing)).collect(), true);
    }
    let bmax = if backing >= 64 { u64::MAX } else { (1u64 << backing) - 1 };
    let wmax = if width >= 64 { u64::MAX } else { (1u64 << width) - 1 };
    let mut v = vec![0u64, 1, 2];
    let mut around = |x: u64, v: &mut Vec<u64>| {
        for d in 0..=2u64 {
            v.push(x.saturating_sub(d));
            v.push(x.saturating_add(d).min(bmax));
        }
    };
    around(wmax, &mut v);
    around(bmax, &mut v);
    if width < 64 {
        around(1u64 << width, &mut v);
    }
    for t in tags {
        match t {
            Tag::Value { v: x, .. } => around(*x, &mut v),
            Tag::Range { lo, hi, tags, .. } => {
                around(*lo, &mut v);
                around(*hi, &mut v);
                for (_, x) in tags {
                    around(*x, &mut v);
                }
            }
            _ => {}
        }
    }
    for st in draw_streams(seed, key, if thorough { 2000 } else { 300 }, 2) {
        let mut s = pdlv_core::choice::Src::new(&st);
        v.push(s.range(0, bmax));
    }
    v.retain(|x| *x <= bmax);
    v.sort();
    v.dedup();
    (v, false)
}

fn near(width: u32, tags: &[Tag], x: u64) -> bool {
    let wmax = if width >= 64 { u64::MAX } else { (1u64 << width) - 1 };
    if x > wmax || x <= 2 || x.saturating_add(2) >= wmax {
        return true;
    }
    tags.iter().any(|t| match t {
        Tag::Value { v, .. } => x.abs_diff(*v) <= 2,
        Tag::Range { lo, hi, tags, .. } => x.abs_diff(*lo) <= 2 || x.abs_diff(*hi) <= 2 || tags.iter().any(|(_, v)| x.abs_diff(*v) <= 2),
        _ => false,
    })
}

pub fn run_legs(tier: &str, seed: u64, kf: &Kf) -> Partial {
    let thorough = tier == "thorough";
    let mut acc = Acc::new("C15");
    let n = if thorough { 120 } else { 18 };
    let dir = work_dir().join(format!("c15-{tier}-{seed}"));
    let _ = std::fs::remove_dir_all(&dir);
    let _ = std::fs::create_dir_all(&dir);
    // ---------------------------------------------------------------- Python
    let mut py_descs = vec![];
    for (i, st) in draw_streams(seed, &format!("C15/py/{tier}"), n, 600).iter().enumerate() {
        let (d, _) = gen_desc(st, &Profile::python(), Some(22 + i % 6), i % 2 == 1);
        let text = plain(&d);
        let Ok((f, db)) = parse(&format!("m{i}.pdl"), &text) else { continue };
        let Ok(Ok(af)) = guarded(|| analyze(&f)) else { continue };
        if let Ok(code) = guarded(|| pdl_compiler::backends::python::generate(&db, &af, None, &[])) {
            if std::fs::write(dir.join(format!("m{i}.py")), code).is_ok() {
                py_descs.push((i, d, text));
            }
        }
    }
    let mut c = Command::new("python3");
    c.arg(format!("{}/harness-rt/driver.py", crate::report::VERIF)).arg(&dir).env("PYTHONHASHSEED", "0").env("PYTHONDONTWRITEBYTECODE", "1");
    if let Ok(mut pipe) = Pipe::spawn(c) {
        for (i, d, text) in &py_descs {
            acc.p.programs += 1;
            for eid in d.enum_ids() {
                let (w, tags) = d.enum_tags(&eid).unwrap();
                let (xs, exhaustive) = xs_for(w, tags, seed, &format!("C15/py/{i}/{eid}"), thorough);
                if exhaustive {
                    acc.p.exhaustive_subspaces += 1;
                }
                let wmax = if w >= 64 { u64::MAX } else { (1u64 << w) - 1 };
                let mut first_bad: Option<(u64, String, String)> = None;
                for x in xs {
                    // Python's from_int takes an unbounded int and sits behind a mask in every generated call
                    // site: values >= 2^w are probed for the evidence, a pass-through on an open enum is not scored
                    let Ok(p) = pipe.call(&["N", &format!("m{i}"), &eid, &x.to_string()]) else { break };
                    let cls = classify_enum(w, tags, x);
                    let got = p.join(" ");
                    let top_named = |t: &str| tags.iter().any(|g| matches!(g, Tag::Value { id, .. } if id == t));
                    let bad: Option<String> = match (&cls, p.first().map(|s| s.as_str())) {
                        (EnumClass::Named(t), Some("OK")) if top_named(t) => (p.get(1).map(|s| s.as_str()) != Some("member") || p.get(2) != Some(t) || p.get(3) != Some(&x.to_string())).then(|| "wrong-member".to_string()),
                        // tags nested in a range are not members of the generated IntEnum: the bare integer is accepted
                        (EnumClass::Named(_) | EnumClass::InRange(_) | EnumClass::Default(_), Some("OK")) => (p.get(3) != Some(&x.to_string()) || (p.get(1).map(|s| s.as_str()) == Some("member") && !matches!(cls, EnumClass::Named(_)))).then(|| "wrong-value".to_string()),
                        (EnumClass::Invalid, Some("ERR")) => (p.get(1).map(|s| s.as_str()) != Some("EnumValueError")).then(|| format!("raises-{}", p.get(1).cloned().unwrap_or_default())),
                        (EnumClass::Invalid, Some("OK")) => {
                            if x > wmax && tags.iter().any(|t| matches!(t, Tag::Other { .. })) {
                                None
                            } else {
                                Some("accepts-invalid".into())
                            }
                        }
                        (_, Some("ERR")) => Some("rejects-valid".into()),
                        _ => Some("protocol".into()),
                    };
                    acc.eval(&format!("python:{}", match &cls { EnumClass::Named(_) => "named", EnumClass::InRange(_) => "in-range", EnumClass::Default(_) => "default", EnumClass::Invalid => "invalid" }), if bad.is_some() { "bad" } else { "ok" });
                    if near(w, tags, x) {
                        acc.nontrivial(fnv(&[b"py", text.as_bytes(), eid.as_bytes(), &x.to_le_bytes()]), || json!({"backend": "python", "description": text, "enum": eid, "x": x, "reference": format!("{cls:?}"), "observed": got}));
                    }
                    if let Some(b) = bad {
                        let tagset: BTreeSet<String> = ["backend:python".to_string()].into_iter().collect();
                        match kf.matches("C15", "from_int", &b, &tagset) {
                            Some(k) => acc.known(&k.id),
                            None => {
                                if first_bad.is_none() {
                                    first_bad = Some((x, b, got.clone()));
                                }
                            }
                        }
                    }
                }
                if let Some((x, outcome, detail)) = first_bad {
                    acc.p.violations.push(json!({"property": "C15", "seed": seed, "backend": "python", "pdl": text, "model": d, "type": eid, "op": "from_int", "input": {"int": x}, "observed": outcome, "detail": detail, "signature": format!("C15|from_int|{outcome}")}));
                }
            }
        }
    } else {
        acc.p.notes.push("python driver not started".into());
    }
    // ---------------------------------------------------------------- C++
    let mut jobs = vec![];
    for (i, st) in draw_streams(seed, &format!("C15/cxx/{tier}"), n, 600).iter().enumerate() {
        let (d, _) = gen_desc(st, &Profile::cxx(), Some(22 + i % 6), i % 2 == 1);
        let text = plain(&d);
        let Ok((f, db)) = parse(&format!("h{i}.pdl"), &text) else { continue };
        let Ok(Ok(af)) = guarded(|| analyze(&f)) else { continue };
        let Ok(h) = guarded(|| pdl_compiler::backends::cxx::generate(&db, &af, Some("ns"), &[], &[], &[])) else { continue };
        let dd = dir.join(format!("x{i}"));
        let _ = std::fs::create_dir_all(&dd);
        let _ = std::fs::write(dd.join("gen.h"), h);
        // closed enums only: IsValid<E> is not generated for open enums
        let closed: Vec<String> = d.enum_ids().into_iter().filter(|e| d.enum_tags(e).map(|(_, t)| !t.iter().any(|x| matches!(x, Tag::Other { .. }))).unwrap_or(false)).collect();
        if closed.is_empty() {
            continue;
        }
        let mut src = String::from("#include <cstdint>\n#include <iostream>\n#include <string>\n#include \"gen.h\"\nusing namespace ns;\nint main() { std::string e; unsigned long long x; while (std::cin >> e >> x) { int r = -1;\n");
        for e in &closed {
            let w = d.enum_tags(e).unwrap().0;
            let t = match w {
                0..=8 => "uint8_t",
                9..=16 => "uint16_t",
                17..=32 => "uint32_t",
                _ => "uint64_t",
            };
            src.push_str(&format!("  if (e == \"{e}\") r = IsValid{e}(({t})x) ? 1 : 0;\n"));
        }
        src.push_str("  std::cout << r << std::endl; } return 0; }\n");
        let _ = std::fs::write(dd.join("e.cc"), src);
        jobs.push((i, d, text, dd, closed));
    }
    let built: Vec<bool> = std::thread::scope(|sc| {
        let hs: Vec<_> = jobs
            .iter()
            .map(|j| {
                let dd = j.3.clone();
                sc.spawn(move || {
                    let _slot = crate::compile::compile_slot();
                    Command::new("g++").args(["-std=c++17", "-O1", "-w", "-I/repo/pdl-compiler/scripts", "-I"]).arg(&dd).arg(dd.join("e.cc")).arg("-o").arg(dd.join("e")).output().map(|o| o.status.success()).unwrap_or(false)
                })
            })
            .collect();
        hs.into_iter().map(|h| h.join().unwrap_or(false)).collect()
    });
    for ((i, d, text, dd, closed), ok) in jobs.iter().zip(built) {
        if !ok {
            acc.skip("cxx-enum-driver-does-not-build (C10's business)");
            continue;
        }
        acc.p.programs += 1;
        // one process per description: all queries on stdin
        let mut queries: Vec<(String, u64)> = vec![];
        for e in closed {
            let (w, tags) = d.enum_tags(e).unwrap();
            let (xs, exhaustive) = xs_for(w, tags, seed, &format!("C15/cxx/{i}/{e}"), thorough);
            if exhaustive {
                acc.p.exhaustive_subspaces += 1;
            }
            queries.extend(xs.into_iter().map(|x| (e.clone(), x)));
        }
        let input: String = queries.iter().map(|(e, x)| format!("{e} {x}\n")).collect();
        let Ok(mut ch) = Command::new(dd.join("e")).stdin(std::process::Stdio::piped()).stdout(std::process::Stdio::piped()).spawn() else { continue };
        let mut stdin = ch.stdin.take().unwrap();
        let writer = std::thread::spawn(move || {
            let _ = stdin.write_all(input.as_bytes());
        });
        let out = ch.wait_with_output().map(|o| String::from_utf8_lossy(&o.stdout).to_string()).unwrap_or_default();
        let _ = writer.join();
        let mut first_bad: Option<(String, u64, String)> = None;
        for ((e, x), line) in queries.iter().zip(out.lines()) {
            let (w, tags) = d.enum_tags(e).unwrap();
            let valid = classify_enum(w, tags, *x) != EnumClass::Invalid;
            let got = line.trim() == "1";
            acc.eval(if valid { "cxx:valid" } else { "cxx:invalid" }, if got == valid { "ok" } else { "bad" });
            if near(w, tags, *x) {
                acc.nontrivial(fnv(&[b"cxx", text.as_bytes(), e.as_bytes(), &x.to_le_bytes()]), || json!({"backend": "cxx", "description": text, "enum": e, "x": x, "reference_valid": valid, "IsValid": got}));
            }
            if got != valid {
                let outcome = if got { "accepts-invalid" } else { "rejects-valid" };
                let tagset: BTreeSet<String> = ["backend:cxx".to_string()].into_iter().collect();
                match kf.matches("C15", "IsValid", outcome, &tagset) {
                    Some(k) => acc.known(&k.id),
                    None => {
                        if first_bad.is_none() {
                            first_bad = Some((e.clone(), *x, outcome.to_string()));
                        }
                    }
                }
            }
        }
        if let Some((e, x, outcome)) = first_bad {
            acc.p.violations.push(json!({"property": "C15", "seed": seed, "backend": "cxx", "pdl": text, "model": d, "type": e, "op": "IsValid", "input": {"int": x}, "observed": outcome, "detail": format!("IsValid{e}({x})"), "signature": format!("C15|IsValid|{outcome}")}));
        }
    }
    let _ = std::fs::remove_dir_all(&dir);
    acc.p
}

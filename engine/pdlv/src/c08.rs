//! C08 - the analyzer rejects every ill-formed description with a renderable diagnostic.
//! A well-formed description gets exactly one rule-violating edit (catalogue below, keyed by
//! ErrorCode); the analyzer must report that code, with labels inside the file, and the
//! diagnostics must render.
//!
//! The analyzer runs its passes in a fixed order and stops at the first failing pass, so an
//! edit only has to leave the *earlier* passes quiet; whatever it breaks in later passes is
//! invisible.  Pass order (analyzer::analyze): E1 | E2-E10 | E11 | E12-E14,E40-E44 | E23-E31 |
//! E32-E35 | E36-E37 | E38 | E39 | E45-E49 | group constraints E15-E22,E42 | decl constraints
//! E15-E22,E42 | E51 | E52-E53.
use crate::compile::*;
use crate::inproc::*;
use crate::report::*;
use pdlv_core::choice::Src;
use pdlv_core::evidence::{fnv, Acc};
use pdlv_core::gen::*;
use pdlv_core::model::*;
use pdlv_core::print::plain;
use serde_json::{json, Value};

pub struct Edit {
    pub desc: Desc,
    /// accepted codes (any of)
    pub expect: Vec<u16>,
    pub ctx: String,
    /// control: the edited description is still well-formed and must be accepted
    pub legal: bool,
}

fn maxv(w: u32) -> u64 {
    if w >= 64 {
        u64::MAX
    } else {
        (1u64 << w) - 1
    }
}

fn records(d: &Desc) -> Vec<usize> {
    (0..d.decls.len()).filter(|i| d.decls[*i].is_record()).collect()
}
fn enums(d: &Desc) -> Vec<usize> {
    (0..d.decls.len()).filter(|i| matches!(d.decls[*i], Decl::Enum { .. })).collect()
}
fn fields_mut(d: &mut Decl) -> Option<&mut Vec<Field>> {
    match d {
        Decl::Record { fields, .. } | Decl::Group { fields, .. } => Some(fields),
        _ => None,
    }
}
fn fields_of(d: &Decl) -> &[Field] {
    match d {
        Decl::Record { fields, .. } | Decl::Group { fields, .. } => fields,
        _ => &[],
    }
}
fn sc(id: &str, w: u32) -> Field {
    Field::new(FieldDesc::Scalar { id: id.into(), w })
}

/// (field id, width, enum type) of the unconditioned scalar / enum fields declared directly in a record,
/// that are not used as condition flags
fn constrainable(d: &Desc, di: usize) -> Vec<(String, u32, Option<String>)> {
    let fs = fields_of(&d.decls[di]);
    let flags: Vec<&String> = fs.iter().filter_map(|f| f.cond.as_ref().map(|c| &c.0)).collect();
    let mut out = vec![];
    for f in fs {
        if f.cond.is_some() {
            continue;
        }
        match &f.d {
            FieldDesc::Scalar { id, w } if !flags.contains(&id) => out.push((id.clone(), *w, None)),
            FieldDesc::Typedef { id, ty } => {
                if let Some((w, _)) = d.enum_tags(ty) {
                    out.push((id.clone(), w, Some(ty.clone())));
                }
            }
            _ => {}
        }
    }
    out
}

fn top_tags(d: &Desc, ty: &str) -> Vec<(String, u64)> {
    d.enum_tags(ty).map(|(_, t)| t.iter().filter_map(|t| if let Tag::Value { id, v } = t { Some((id.clone(), *v)) } else { None }).collect()).unwrap_or_default()
}

/// records without parent and without children: adding a child to them is a controlled edit
fn childless_roots(d: &Desc) -> Vec<usize> {
    records(d).into_iter().filter(|i| matches!(&d.decls[*i], Decl::Record { parent: None, .. }) && d.children_of(d.decls[*i].id()).is_empty()).collect()
}

fn add_child(d: &mut Desc, pi: usize, cons: Vec<Cons>, fields: Vec<Field>) {
    let Decl::Record { id, packet, .. } = &d.decls[pi] else { return };
    let (pid, packet) = (id.clone(), *packet);
    d.decls.push(Decl::Record { id: "Zchild".into(), packet, parent: Some(pid), cons, fields });
}

/// a packet without children: its size is used by no other declaration
fn pick_leaf_packet(d: &Desc, s: &mut Src) -> Option<usize> {
    let c: Vec<usize> = records(d).into_iter().filter(|i| matches!(&d.decls[*i], Decl::Record { packet: true, .. }) && d.children_of(d.decls[*i].id()).is_empty()).collect();
    if c.is_empty() {
        None
    } else {
        Some(*s.pick(&c))
    }
}

pub const N_OPS: usize = 64;

/// Apply edit operator `op` to `d`.  None when the description offers no place for it.
pub fn apply(op: usize, d0: &Desc, s: &mut Src) -> Option<Edit> {
    let mut d = d0.clone();
    let recs = records(&d);
    let ens = enums(&d);
    let e = |desc: Desc, code: u16, ctx: &str| Some(Edit { desc, expect: vec![code], ctx: ctx.into(), legal: false });
    let pick_rec = |s: &mut Src| -> Option<usize> {
        if recs.is_empty() {
            None
        } else {
            Some(*s.pick(&recs))
        }
    };
    match op {
        // ---------------------------------------------------------------- E1
        0 => {
            if d.decls.len() < 2 {
                return None;
            }
            let i = s.below(d.decls.len());
            let mut j = s.below(d.decls.len() - 1);
            if j >= i {
                j += 1;
            }
            let id = d.decls[i].id().to_string();
            let same_kind = std::mem::discriminant(&d.decls[i]) == std::mem::discriminant(&d.decls[j]);
            match &mut d.decls[j] {
                Decl::Enum { id: x, .. } | Decl::Custom { id: x, .. } | Decl::Checksum { id: x, .. } | Decl::Group { id: x, .. } | Decl::Record { id: x, .. } => *x = id,
            }
            e(d, 1, if same_kind { "same-kind" } else { "different-kind" })
        }
        // ---------------------------------------------------------------- E2 recursive
        1 => {
            let structs: Vec<usize> = recs.iter().copied().filter(|i| matches!(d.decls[*i], Decl::Record { packet: false, .. })).collect();
            if structs.is_empty() {
                return None;
            }
            let i = *s.pick(&structs);
            let id = d.decls[i].id().to_string();
            let arr = s.bool();
            let f = if arr { Field::new(FieldDesc::Array { id: "zrec".into(), elem: Elem::Ty(id), count: Some(2), modifier: None }) } else { Field::new(FieldDesc::Typedef { id: "zrec".into(), ty: id }) };
            fields_mut(&mut d.decls[i])?.push(f);
            e(d, 2, if arr { "static-array-of-self" } else { "typedef-of-self" })
        }
        2 => {
            let i = pick_rec(s)?;
            let Decl::Record { id, parent, .. } = &mut d.decls[i] else { return None };
            if parent.is_some() {
                return None;
            }
            *parent = Some(id.clone());
            e(d, 2, "parent-is-self")
        }
        3 => {
            d.decls.push(Decl::Group { id: "Zg".into(), fields: vec![sc("zg1", 8), Field::new(FieldDesc::Group { id: "Zg".into(), cons: vec![] })] });
            let i = pick_rec(s)?;
            fields_mut(&mut d.decls[i])?.push(Field::new(FieldDesc::Group { id: "Zg".into(), cons: vec![] }));
            e(d, 2, "group-contains-itself")
        }
        4 => {
            // two structs referring to each other
            d.decls.push(Decl::Record { id: "Za".into(), packet: false, parent: None, cons: vec![], fields: vec![sc("za1", 8), Field::new(FieldDesc::Typedef { id: "za2".into(), ty: "Zb".into() })] });
            d.decls.push(Decl::Record { id: "Zb".into(), packet: false, parent: None, cons: vec![], fields: vec![Field::new(FieldDesc::Typedef { id: "zb1".into(), ty: "Za".into() })] });
            e(d, 2, "two-cycle")
        }
        // ---------------------------------------------------------------- E3..E8
        5 => {
            let i = pick_rec(s)?;
            fields_mut(&mut d.decls[i])?.push(Field::new(FieldDesc::Group { id: "Znope".into(), cons: vec![] }));
            e(d, 3, "record")
        }
        6 => {
            let i = pick_rec(s)?;
            let others: Vec<String> = d.decls.iter().filter(|x| !matches!(x, Decl::Group { .. })).map(|x| x.id().to_string()).collect();
            let o = s.pick(&others).clone();
            fields_mut(&mut d.decls[i])?.push(Field::new(FieldDesc::Group { id: o, cons: vec![] }));
            e(d, 4, "non-group")
        }
        7 => {
            let i = pick_rec(s)?;
            let arr = s.bool();
            let f = if arr { FieldDesc::Array { id: "zt".into(), elem: Elem::Ty("Znope".into()), count: None, modifier: None } } else { FieldDesc::Typedef { id: "zt".into(), ty: "Znope".into() } };
            fields_mut(&mut d.decls[i])?.push(Field::new(f));
            e(d, 5, if arr { "array-element" } else { "typedef" })
        }
        8 => {
            // a typedef or array element type must be an enum, struct, custom field or checksum: packets and groups are not
            let mut packets: Vec<String> = recs.iter().filter(|i| matches!(d.decls[**i], Decl::Record { packet: true, .. })).map(|i| d.decls[*i].id().to_string()).collect();
            let groups: Vec<String> = d.decls.iter().filter(|x| matches!(x, Decl::Group { .. })).map(|x| x.id().to_string()).collect();
            let n_packets = packets.len();
            packets.extend(groups);
            if packets.is_empty() {
                return None;
            }
            let pi = s.below(packets.len());
            let of_group = pi >= n_packets;
            let p = packets[pi].clone();
            let i = pick_rec(s)?;
            if d.decls[i].id() == p {
                return None; // would be recursion (E2) as well
            }
            let arr = s.bool();
            let f = if arr { FieldDesc::Array { id: "zt".into(), elem: Elem::Ty(p), count: None, modifier: None } } else { FieldDesc::Typedef { id: "zt".into(), ty: p } };
            fields_mut(&mut d.decls[i])?.push(Field::new(f));
            e(d, 6, match (arr, of_group) { (true, false) => "array-of-packet", (false, false) => "typedef-of-packet", (true, true) => "array-of-group", (false, true) => "typedef-of-group" })
        }
        9 => {
            let i = pick_rec(s)?;
            let Decl::Record { parent, .. } = &mut d.decls[i] else { return None };
            if parent.is_some() {
                return None;
            }
            *parent = Some("Znope".into());
            e(d, 7, "undeclared-parent")
        }
        10 => {
            let i = pick_rec(s)?;
            let Decl::Record { parent, packet, .. } = &d.decls[i] else { return None };
            if parent.is_some() {
                return None;
            }
            let is_packet = *packet;
            // a declaration of the other kind
            let others: Vec<String> = d
                .decls
                .iter()
                .filter(|x| match x {
                    Decl::Record { packet: p, .. } => *p != is_packet,
                    Decl::Enum { .. } | Decl::Group { .. } | Decl::Custom { .. } => true,
                    _ => false,
                })
                .map(|x| x.id().to_string())
                .collect();
            if others.is_empty() {
                return None;
            }
            let o = s.pick(&others).clone();
            // the other-kind record must not (transitively) contain this one: keep it simple, require no typedef of self
            if let Decl::Record { parent, .. } = &mut d.decls[i] {
                *parent = Some(o);
            }
            Some(Edit { desc: d, expect: vec![8, 2], ctx: "other-kind-parent".into(), legal: false })
        }
        // ---------------------------------------------------------------- E11
        11 => {
            let i = pick_rec(s)?;
            let named: Vec<String> = fields_of(&d.decls[i]).iter().filter_map(|f| f.id().filter(|x| !x.starts_with('_')).map(|x| x.to_string())).collect();
            if named.is_empty() {
                return None;
            }
            let id = s.pick(&named).clone();
            let f = match s.below(3) {
                0 => sc(&id, 8),
                1 => Field::new(FieldDesc::Array { id, elem: Elem::Bits(8), count: Some(1), modifier: None }),
                _ => sc(&id, 16),
            };
            fields_mut(&mut d.decls[i])?.push(f);
            e(d, 11, "local")
        }
        12 => {
            // duplicate through a group
            let i = pick_rec(s)?;
            let named: Vec<String> = fields_of(&d.decls[i]).iter().filter_map(|f| f.id().filter(|x| !x.starts_with('_')).map(|x| x.to_string())).collect();
            if named.is_empty() {
                return None;
            }
            let id = s.pick(&named).clone();
            d.decls.push(Decl::Group { id: "Zg".into(), fields: vec![sc(&id, 8)] });
            fields_mut(&mut d.decls[i])?.push(Field::new(FieldDesc::Group { id: "Zg".into(), cons: vec![] }));
            e(d, 11, "through-group")
        }
        13 => {
            // parent and child declare the same field
            let roots = childless_roots(&d);
            let roots: Vec<usize> = roots.into_iter().filter(|i| fields_of(&d.decls[*i]).iter().any(|f| matches!(f.d, FieldDesc::Payload { .. } | FieldDesc::Body))).collect();
            if roots.is_empty() {
                return None;
            }
            let pi = *s.pick(&roots);
            let named: Vec<String> = fields_of(&d.decls[pi]).iter().filter_map(|f| f.id().filter(|x| !x.starts_with('_')).map(|x| x.to_string())).collect();
            if named.is_empty() {
                return None;
            }
            let id = s.pick(&named).clone();
            add_child(&mut d, pi, vec![], vec![sc(&id, 8)]);
            e(d, 11, "inherited")
        }
        // ---------------------------------------------------------------- enums E12 E13 E14 E40 E41 E43 E44
        14..=22 => {
            if ens.is_empty() {
                return None;
            }
            let i = *s.pick(&ens);
            let Decl::Enum { width, tags, .. } = &mut d.decls[i] else { return None };
            let w = *width;
            let max = maxv(w);
            let used: Vec<u64> = tags
                .iter()
                .flat_map(|t| match t {
                    Tag::Value { v, .. } => vec![*v],
                    Tag::Range { lo, hi, .. } => vec![*lo, *hi],
                    _ => vec![],
                })
                .collect();
            let in_range = |x: u64, tags: &Vec<Tag>| tags.iter().any(|t| matches!(t, Tag::Range { lo, hi, .. } if *lo <= x && x <= *hi));
            let free = |tags: &Vec<Tag>, s: &mut Src| -> Option<u64> {
                for _ in 0..12 {
                    let x = s.range(0, max);
                    if !used.contains(&x) && !in_range(x, tags) {
                        return Some(x);
                    }
                }
                None
            };
            let ids: Vec<String> = tags
                .iter()
                .flat_map(|t| match t {
                    Tag::Value { id, .. } | Tag::Other { id } => vec![id.clone()],
                    Tag::Range { id, tags, .. } => {
                        let mut v = vec![id.clone()];
                        v.extend(tags.iter().map(|x| x.0.clone()));
                        v
                    }
                })
                .collect();
            match op {
                14 => {
                    let v = free(tags, s)?;
                    let id = s.pick(&ids).clone();
                    tags.push(Tag::Value { id, v });
                    e(d, 12, "value-tag")
                }
                15 => {
                    let vals: Vec<u64> = tags.iter().filter_map(|t| if let Tag::Value { v, .. } = t { Some(*v) } else { None }).collect();
                    if vals.is_empty() {
                        return None;
                    }
                    let v = *s.pick(&vals);
                    tags.push(Tag::Value { id: "Zdup".into(), v });
                    e(d, 13, "top-level")
                }
                16 => {
                    if w >= 64 {
                        return None;
                    }
                    tags.push(Tag::Value { id: "Zbig".into(), v: 1u64 << w });
                    e(d, 14, &format!("value=2^w"))
                }
                17 => {
                    // legal neighbour: 2^w - 1 when free
                    if used.contains(&max) || in_range(max, tags) {
                        return None;
                    }
                    tags.push(Tag::Value { id: "Zmax".into(), v: max });
                    Some(Edit { desc: d, expect: vec![], ctx: "tag=2^w-1".into(), legal: true })
                }
                18 => {
                    // range start == end / start > end / end = 2^w
                    let v = free(tags, s)?;
                    let k = s.below(3);
                    let (lo, hi) = match k {
                        0 => (v, v),
                        1 => {
                            if v == 0 {
                                return None;
                            }
                            (v, v - 1)
                        }
                        _ => {
                            if w >= 64 {
                                return None;
                            }
                            (v, 1u64 << w)
                        }
                    };
                    // the malformed range may also overlap others (E41) or swallow values (E43): same pass, accumulated
                    tags.push(Tag::Range { id: "Zr".into(), lo, hi, tags: vec![] });
                    e(d, 40, ["start=end", "start>end", "end=2^w"][k])
                }
                19 => {
                    // overlapping ranges: duplicate an existing range shifted by 0/1 (touching)
                    let rs: Vec<(u64, u64)> = tags.iter().filter_map(|t| if let Tag::Range { lo, hi, .. } = t { Some((*lo, *hi)) } else { None }).collect();
                    if rs.is_empty() {
                        return None;
                    }
                    let (lo, hi) = *s.pick(&rs);
                    let k = s.below(3);
                    let (nlo, nhi) = match k {
                        0 => (lo, hi),
                        1 => {
                            if hi >= max {
                                return None;
                            }
                            (hi, hi + 1)
                        } // touching: a..b, b..c
                        _ => {
                            if lo == 0 {
                                return None;
                            }
                            (lo - 1, lo)
                        }
                    };
                    tags.push(Tag::Range { id: "Zr".into(), lo: nlo, hi: nhi, tags: vec![] });
                    e(d, 41, ["same", "touching-high", "touching-low"][k])
                }
                20 => {
                    let rs: Vec<(u64, u64)> = tags.iter().filter_map(|t| if let Tag::Range { lo, hi, .. } = t { Some((*lo, *hi)) } else { None }).collect();
                    if rs.is_empty() {
                        return None;
                    }
                    let (lo, hi) = *s.pick(&rs);
                    let k = s.below(3);
                    let v = [lo, hi, lo + (hi - lo) / 2][k];
                    let before = s.bool();
                    let t = Tag::Value { id: "Zin".into(), v };
                    if before {
                        tags.insert(0, t);
                    } else {
                        tags.push(t);
                    }
                    Some(Edit { desc: d, expect: vec![43, 13], ctx: format!("{}-{}", ["lo", "hi", "inside"][k], if before { "before" } else { "after" }), legal: false })
                }
                21 => {
                    if !tags.iter().any(|t| matches!(t, Tag::Other { .. })) {
                        tags.push(Tag::Other { id: "Zo1".into() });
                    }
                    tags.push(Tag::Other { id: "Zo2".into() });
                    e(d, 44, "second-default")
                }
                _ => {
                    // nested tag outside its range
                    let ri: Vec<usize> = (0..tags.len()).filter(|k| matches!(tags[*k], Tag::Range { .. })).collect();
                    if ri.is_empty() {
                        return None;
                    }
                    let k = *s.pick(&ri);
                    let Tag::Range { lo, hi, tags: sub, .. } = &mut tags[k] else { return None };
                    let below = s.bool();
                    let v = if below {
                        if *lo == 0 {
                            return None;
                        }
                        *lo - 1
                    } else {
                        if *hi >= max {
                            return None;
                        }
                        *hi + 1
                    };
                    sub.push(("Zout".into(), v));
                    Some(Edit { desc: d, expect: vec![14, 13, 43], ctx: if below { "nested=lo-1".into() } else { "nested=hi+1".into() }, legal: false })
                }
            }
        }
        // ---------------------------------------------------------------- size / count / element size fields
        23..=31 => {
            let i = pick_rec(s)?;
            let fs = fields_of(&d.decls[i]).to_vec();
            let arrays: Vec<(usize, String, bool)> = fs.iter().enumerate().filter_map(|(k, f)| if let FieldDesc::Array { id, count, .. } = &f.d { Some((k, id.clone(), count.is_some())) } else { None }).collect();
            let mk = |kind: usize, target: String, w: u32| {
                Field::new(match kind {
                    0 => FieldDesc::Size { target, w },
                    1 => FieldDesc::Count { target, w },
                    _ => FieldDesc::ElemSize { target, w },
                })
            };
            match op {
                23 | 24 | 25 => {
                    // duplicate size / count / element-size field
                    let kind = op - 23;
                    let existing: Vec<(usize, String)> = fs
                        .iter()
                        .enumerate()
                        .filter_map(|(k, f)| match (&f.d, kind) {
                            (FieldDesc::Size { target, .. }, 0) | (FieldDesc::Count { target, .. }, 1) | (FieldDesc::ElemSize { target, .. }, 2) => Some((k, target.clone())),
                            _ => None,
                        })
                        .collect();
                    if existing.is_empty() {
                        return None;
                    }
                    let (k, target) = s.pick(&existing).clone();
                    fields_mut(&mut d.decls[i])?.insert(k, mk(kind, target, 8));
                    e(d, [23, 26, 29][kind], "same-kind-twice")
                }
                26 => {
                    // size + count for the same dynamic array, in both orders
                    let both: Vec<(usize, String, bool)> = fs
                        .iter()
                        .enumerate()
                        .filter_map(|(k, f)| match &f.d {
                            FieldDesc::Size { target, .. } if !target.starts_with('_') => Some((k, target.clone(), true)),
                            FieldDesc::Count { target, .. } => Some((k, target.clone(), false)),
                            _ => None,
                        })
                        .collect();
                    if both.is_empty() {
                        return None;
                    }
                    let (k, target, is_size) = s.pick(&both).clone();
                    let at = if s.bool() { k } else { k + 1 };
                    fields_mut(&mut d.decls[i])?.insert(at, mk(if is_size { 1 } else { 0 }, target, 8));
                    Some(Edit { desc: d, expect: vec![23, 26], ctx: "size-and-count".into(), legal: false })
                }
                27 => {
                    let kind = s.below(3);
                    let payload_missing = kind == 0 && s.bool() && !fs.iter().any(|f| matches!(f.d, FieldDesc::Payload { .. } | FieldDesc::Body));
                    let target = if payload_missing { "_payload_".to_string() } else { "znope".to_string() };
                    fields_mut(&mut d.decls[i])?.insert(0, mk(kind, target, 8));
                    e(d, [24, 27, 30][kind], if payload_missing { "size-of-missing-payload" } else { "undeclared-target" })
                }
                28 => {
                    // size / count / element-size of a scalar, enum or struct field
                    let others: Vec<(usize, String)> = fs.iter().enumerate().filter_map(|(k, f)| match &f.d { FieldDesc::Scalar { id, .. } | FieldDesc::Typedef { id, .. } => Some((k, id.clone())), _ => None }).collect();
                    if others.is_empty() {
                        return None;
                    }
                    let (k, target) = s.pick(&others).clone();
                    let kind = s.below(3);
                    fields_mut(&mut d.decls[i])?.insert(k, mk(kind, target, 8));
                    e(d, [25, 28, 31][kind], "non-array-target")
                }
                29 => return None, // `_count_(_payload_)` is not in the grammar
                30 => {
                    // E38: size or count field for an array with a static count
                    let st: Vec<&(usize, String, bool)> = arrays.iter().filter(|a| a.2).collect();
                    if st.is_empty() {
                        return None;
                    }
                    let (k, id, _) = (*s.pick(&st)).clone();
                    let kind = s.below(2);
                    fields_mut(&mut d.decls[i])?.insert(k, mk(kind, id, 8));
                    e(d, 38, if kind == 0 { "size-for-static-array" } else { "count-for-static-array" })
                }
                _ => {
                    // control: an extra 8-bit size field for a dynamic array that has none (legal when the array is last? a size
                    // field in front of an unsized array is always legal)
                    let dynamic: Vec<&(usize, String, bool)> = arrays
                        .iter()
                        .filter(|a| !a.2 && !fs.iter().any(|f| matches!(&f.d, FieldDesc::Size { target, .. } | FieldDesc::Count { target, .. } if target == &a.1)))
                        .collect();
                    if dynamic.is_empty() {
                        return None;
                    }
                    let (k, id, _) = (*s.pick(&dynamic)).clone();
                    // insert at an octet boundary: directly before the array (arrays start on octet boundaries)
                    fields_mut(&mut d.decls[i])?.insert(k, mk(0, id, 8));
                    Some(Edit { desc: d, expect: vec![], ctx: "add-size-field".into(), legal: true })
                }
            }
        }
        // ---------------------------------------------------------------- fixed fields E32-E35
        32 => {
            let i = pick_rec(s)?;
            let w = 1 + s.below(63) as u32;
            fields_mut(&mut d.decls[i])?.push(Field::new(FieldDesc::FixedScalar { w, v: 1u64 << w }));
            e(d, 32, "value=2^w")
        }
        33 => {
            // control: 2^w - 1 in a whole-octet fixed field appended at the end
            let i = pick_rec(s)?;
            let fs = fields_of(&d.decls[i]);
            // appending is legal only if nothing unsized precedes... appending static fields is always legal for the analyzer
            if fs.iter().any(|f| matches!(f.d, FieldDesc::Padding { .. })) && matches!(fs.last().map(|f| &f.d), Some(FieldDesc::Array { .. })) {
                return None;
            }
            let w = 8 * (1 + s.below(8)) as u32;
            fields_mut(&mut d.decls[i])?.push(Field::new(FieldDesc::FixedScalar { w, v: maxv(w) }));
            Some(Edit { desc: d, expect: vec![], ctx: "fixed=2^w-1".into(), legal: true })
        }
        34 => {
            let i = pick_rec(s)?;
            fields_mut(&mut d.decls[i])?.push(Field::new(FieldDesc::FixedEnum { ty: "Znope".into(), tag: "A".into() }));
            e(d, 33, "undeclared-enum")
        }
        35 => {
            if ens.is_empty() {
                return None;
            }
            let ty = d.decls[*s.pick(&ens)].id().to_string();
            let i = pick_rec(s)?;
            fields_mut(&mut d.decls[i])?.push(Field::new(FieldDesc::FixedEnum { ty, tag: "Znope".into() }));
            e(d, 34, "undeclared-tag")
        }
        36 => {
            let non: Vec<String> = d.decls.iter().filter(|x| matches!(x, Decl::Record { packet: false, parent: None, .. } | Decl::Custom { .. })).map(|x| x.id().to_string()).collect();
            if non.is_empty() {
                return None;
            }
            let ty = s.pick(&non).clone();
            let i = pick_rec(s)?;
            if d.decls[i].id() == ty {
                return None;
            }
            fields_mut(&mut d.decls[i])?.push(Field::new(FieldDesc::FixedEnum { ty, tag: "A".into() }));
            e(d, 35, "non-enum-type")
        }
        // ---------------------------------------------------------------- payload E36 E37
        37 => {
            let with: Vec<usize> = recs.iter().copied().filter(|i| fields_of(&d.decls[*i]).iter().any(|f| matches!(f.d, FieldDesc::Payload { .. } | FieldDesc::Body))).collect();
            if with.is_empty() {
                return None;
            }
            let i = *s.pick(&with);
            let f = if s.bool() { FieldDesc::Body } else { FieldDesc::Payload { modifier: None } };
            let at = s.below(fields_of(&d.decls[i]).len() + 1);
            fields_mut(&mut d.decls[i])?.insert(at, Field::new(f));
            e(d, 36, "second-payload-or-body")
        }
        38 => {
            let without: Vec<usize> = childless_roots(&d).into_iter().filter(|i| !fields_of(&d.decls[*i]).iter().any(|f| matches!(f.d, FieldDesc::Payload { .. } | FieldDesc::Body))).collect();
            if without.is_empty() {
                return None;
            }
            let pi = *s.pick(&without);
            add_child(&mut d, pi, vec![], vec![sc("zc1", 8)]);
            e(d, 37, "child-with-fields-under-parent-without-payload")
        }
        // ---------------------------------------------------------------- E39 padding
        39 => {
            let i = pick_rec(s)?;
            let fs = fields_of(&d.decls[i]);
            let spots: Vec<usize> = (0..=fs.len()).filter(|k| *k == 0 || !matches!(fs[*k - 1].d, FieldDesc::Array { .. })).collect();
            let at = *s.pick(&spots);
            fields_mut(&mut d.decls[i])?.insert(at, Field::new(FieldDesc::Padding { n: 1 + s.below(16) as u64 }));
            e(d, 39, if at == 0 { "padding-first" } else { "padding-after-non-array" })
        }
        // ---------------------------------------------------------------- optional fields E45-E49
        40..=45 => {
            let i = pick_rec(s)?;
            let fs = fields_mut(&mut d.decls[i])?;
            match op {
                40 => {
                    fs.insert(0, sc("zflag", 1));
                    fs.insert(1, Field::new(FieldDesc::Reserved { w: 7 }));
                    let bad = match s.below(4) {
                        0 => FieldDesc::Array { id: "zo".into(), elem: Elem::Bits(8), count: None, modifier: None },
                        1 => FieldDesc::Reserved { w: 8 },
                        2 => FieldDesc::FixedScalar { w: 8, v: 1 },
                        _ => FieldDesc::Padding { n: 4 },
                    };
                    let ctx = format!("{:?}", bad).split(' ').next().unwrap_or("").to_string();
                    fs.insert(2, Field { d: bad, cond: Some(("zflag".into(), s.below(2) as u64)) });
                    Some(Edit { desc: d, expect: vec![45, 39], ctx, legal: false })
                }
                41 => {
                    let late = s.bool();
                    fs.push(Field { d: FieldDesc::Scalar { id: "zo".into(), w: 8 }, cond: Some(("zflag".into(), 1)) });
                    if late {
                        fs.push(sc("zflag", 1));
                        fs.push(Field::new(FieldDesc::Reserved { w: 7 }));
                    }
                    e(d, 46, if late { "flag-declared-after" } else { "undeclared-flag" })
                }
                42 => {
                    let k = s.below(3);
                    match k {
                        0 => fs.insert(0, sc("zflag", 2 + s.below(7) as u32)),
                        1 => fs.insert(0, Field::new(FieldDesc::Array { id: "zflag".into(), elem: Elem::Bits(8), count: Some(1), modifier: None })),
                        _ => {
                            if ens.is_empty() {
                                return None;
                            }
                            let ty = d0.decls[*s.pick(&ens)].id().to_string();
                            fs.insert(0, Field::new(FieldDesc::Typedef { id: "zflag".into(), ty }));
                        }
                    }
                    fs.push(Field { d: FieldDesc::Scalar { id: "zo".into(), w: 8 }, cond: Some(("zflag".into(), 1)) });
                    e(d, 47, ["wide-scalar-flag", "array-flag", "enum-flag"][k])
                }
                43 => {
                    fs.insert(0, sc("zflag", 1));
                    fs.insert(1, Field::new(FieldDesc::Reserved { w: 7 }));
                    fs.insert(2, Field { d: FieldDesc::Scalar { id: "zo".into(), w: 8 }, cond: Some(("zflag".into(), *s.pick(&[2u64, 3, 255, u64::MAX]))) });
                    e(d, 48, "value>1")
                }
                44 => {
                    fs.insert(0, sc("zflag", 1));
                    fs.insert(1, Field::new(FieldDesc::Reserved { w: 7 }));
                    fs.insert(2, Field { d: FieldDesc::Scalar { id: "zo".into(), w: 8 }, cond: Some(("zflag".into(), 1)) });
                    fs.insert(3, Field { d: FieldDesc::Scalar { id: "zo2".into(), w: 8 }, cond: Some(("zo".into(), 1)) });
                    Some(Edit { desc: d, expect: vec![49, 47], ctx: "flag-is-optional".into(), legal: false })
                }
                _ => {
                    // control: a well-formed optional scalar in front
                    fs.insert(0, sc("zflag", 1));
                    fs.insert(1, Field::new(FieldDesc::Reserved { w: 7 }));
                    fs.insert(2, Field { d: FieldDesc::Scalar { id: "zo".into(), w: 8 * (1 + s.below(8)) as u32 }, cond: Some(("zflag".into(), s.below(2) as u64)) });
                    Some(Edit { desc: d, expect: vec![], ctx: "add-optional-scalar".into(), legal: true })
                }
            }
        }
        // ---------------------------------------------------------------- constraints E15-E22, E42
        46..=56 => {
            // context: 0 parent constraint on a new child; 1 group constraint
            let group_ctx = s.bool();
            // a record with a constrainable field, for the parent context a childless root
            let cands: Vec<usize> = if group_ctx { recs.clone() } else { childless_roots(&d) };
            let cands: Vec<usize> = cands.into_iter().filter(|i| group_ctx || !constrainable(&d, *i).is_empty()).collect();
            if cands.is_empty() {
                return None;
            }
            let pi = *s.pick(&cands);
            // fields available for constraining
            let avail: Vec<(String, u32, Option<String>)> = if group_ctx {
                // a fresh group with one scalar and, when an enum exists, one enum field
                let mut gf = vec![sc("zg1", 8)];
                let mut av = vec![("zg1".to_string(), 8u32, None)];
                let usable: Vec<String> = ens.iter().map(|k| d.decls[*k].id().to_string()).filter(|t| d.enum_tags(t).map(|x| x.0 == 8).unwrap_or(false) && !top_tags(&d, t).is_empty()).collect();
                if !usable.is_empty() {
                    let ty = s.pick(&usable).clone();
                    gf.push(Field::new(FieldDesc::Typedef { id: "zg2".into(), ty: ty.clone() }));
                    av.push(("zg2".to_string(), 8, Some(ty)));
                }
                gf.push(Field::new(FieldDesc::Array { id: "zg3".into(), elem: Elem::Bits(8), count: Some(1), modifier: None }));
                d.decls.push(Decl::Group { id: "Zg".into(), fields: gf });
                av
            } else {
                constrainable(&d, pi)
            };
            let scalars: Vec<&(String, u32, Option<String>)> = avail.iter().filter(|a| a.2.is_none()).collect();
            let enumf: Vec<&(String, u32, Option<String>)> = avail.iter().filter(|a| a.2.is_some()).collect();
            let (cons, code, ctx): (Vec<Cons>, Vec<u16>, &str) = match op {
                46 => (vec![Cons { id: "znope".into(), v: Cv::Int(0) }], vec![15], "undeclared-field"),
                47 => {
                    // constraint on an array field
                    let arr: Option<String> = if group_ctx { Some("zg3".into()) } else { fields_of(&d.decls[pi]).iter().find_map(|f| if let FieldDesc::Array { id, .. } = &f.d { Some(id.clone()) } else { None }) };
                    (vec![Cons { id: arr?, v: Cv::Int(0) }], vec![16], "array-field")
                }
                48 => {
                    if scalars.is_empty() {
                        return None;
                    }
                    let f = *s.pick(&scalars);
                    (vec![Cons { id: f.0.clone(), v: Cv::Tag("Ztag".into()) }], vec![17], "tag-on-scalar")
                }
                49 => {
                    let narrow: Vec<&&(String, u32, Option<String>)> = scalars.iter().filter(|a| a.1 < 64).collect();
                    if narrow.is_empty() {
                        return None;
                    }
                    let f = **s.pick(&narrow);
                    (vec![Cons { id: f.0.clone(), v: Cv::Int(1u64 << f.1) }], vec![18], "value=2^w")
                }
                50 => {
                    // control: 2^w - 1
                    if scalars.is_empty() {
                        return None;
                    }
                    let f = *s.pick(&scalars);
                    (vec![Cons { id: f.0.clone(), v: Cv::Int(maxv(f.1)) }], vec![], "value=2^w-1")
                }
                51 => {
                    if enumf.is_empty() {
                        return None;
                    }
                    let f = *s.pick(&enumf);
                    (vec![Cons { id: f.0.clone(), v: Cv::Int(0) }], vec![19], "integer-on-enum")
                }
                52 => {
                    if enumf.is_empty() {
                        return None;
                    }
                    let f = *s.pick(&enumf);
                    (vec![Cons { id: f.0.clone(), v: Cv::Tag("Znope".into()) }], vec![20], "undeclared-tag")
                }
                53 => {
                    // tag that names a range
                    let mut found = None;
                    for f in &enumf {
                        if let Some((_, tags)) = d.enum_tags(f.2.as_ref().unwrap()) {
                            if let Some(Tag::Range { id, .. }) = tags.iter().find(|t| matches!(t, Tag::Range { .. })) {
                                found = Some((f.0.clone(), id.clone()));
                            }
                        }
                    }
                    let (fid, tid) = found?;
                    (vec![Cons { id: fid, v: Cv::Tag(tid) }], vec![42], "range-tag")
                }
                54 => {
                    // constraint on a struct- or custom-typed field
                    if group_ctx {
                        return None;
                    }
                    let st = fields_of(&d.decls[pi]).iter().find_map(|f| match &f.d {
                        FieldDesc::Typedef { id, ty } if f.cond.is_none() && d.enum_tags(ty).is_none() => Some(id.clone()),
                        _ => None,
                    })?;
                    let v = if s.bool() { Cv::Int(0) } else { Cv::Tag("A".into()) };
                    (vec![Cons { id: st, v }], vec![21], "struct-typed-field")
                }
                55 => {
                    if scalars.is_empty() {
                        return None;
                    }
                    let f = *s.pick(&scalars);
                    (vec![Cons { id: f.0.clone(), v: Cv::Int(0) }, Cons { id: f.0.clone(), v: Cv::Int(1 & maxv(f.1)) }], vec![22], "same-field-twice")
                }
                _ => {
                    // duplicate along the ancestor chain: child constrains f, grand-child constrains f again
                    if group_ctx || scalars.is_empty() {
                        return None;
                    }
                    let f = *s.pick(&scalars);
                    let c = Cons { id: f.0.clone(), v: Cv::Int(0) };
                    add_child(&mut d, pi, vec![c.clone()], vec![]);
                    let packet = matches!(d.decls[pi], Decl::Record { packet: true, .. });
                    d.decls.push(Decl::Record { id: "Zgrand".into(), packet, parent: Some("Zchild".into()), cons: vec![c], fields: vec![] });
                    return Some(Edit { desc: d, expect: vec![22], ctx: "child-and-grandchild".into(), legal: false });
                }
            };
            if group_ctx {
                // the group field is appended to the record; its static size is 8 or 16 bits + 1 octet
                fields_mut(&mut d.decls[pi])?.push(Field::new(FieldDesc::Group { id: "Zg".into(), cons }));
            } else {
                add_child(&mut d, pi, cons, vec![]);
            }
            let legal = code.is_empty();
            Some(Edit { desc: d, expect: code, ctx: format!("{}:{ctx}", if group_ctx { "group" } else { "parent" }), legal })
        }
        // ---------------------------------------------------------------- offsets and sizes E51 E52 E53
        57 => {
            // non-bit-field at bit offset k (1..7): put `zb : k` directly before an array / struct / payload field
            let i = pick_rec(s)?;
            let fs = fields_of(&d.decls[i]);
            let spots: Vec<usize> = fs
                .iter()
                .enumerate()
                .filter(|(_, f)| {
                    f.cond.is_none()
                        && match &f.d {
                            FieldDesc::Array { .. } | FieldDesc::Payload { .. } | FieldDesc::Body => true,
                            FieldDesc::Typedef { ty, .. } => d.enum_tags(ty).is_none(),
                            _ => false,
                        }
                })
                .map(|(k, _)| k)
                .collect();
            if spots.is_empty() {
                return None;
            }
            let at = *s.pick(&spots);
            let k = *s.pick(&[1u32, 7, 9, 15, 4, 3]);
            fields_mut(&mut d.decls[i])?.insert(at, sc("zb", k));
            e(d, 51, &format!("offset={k}"))
        }
        58 => {
            // control: whole octets inserted before a non-bit-field
            let i = pick_rec(s)?;
            let fs = fields_of(&d.decls[i]);
            let spots: Vec<usize> = fs.iter().enumerate().filter(|(_, f)| f.cond.is_none() && matches!(f.d, FieldDesc::Array { .. } | FieldDesc::Payload { .. } | FieldDesc::Body)).map(|(k, _)| k).collect();
            if spots.is_empty() {
                return None;
            }
            let at = *s.pick(&spots);
            fields_mut(&mut d.decls[i])?.insert(at, sc("zb", *s.pick(&[8u32, 16, 24, 64])));
            Some(Edit { desc: d, expect: vec![], ctx: "offset=8k".into(), legal: true })
        }
        59 => {
            // array element width 8k + r, appended at the end (the record is whole octets up to here)
            let i = pick_leaf_packet(&d, s)?;
            if matches!(fields_of(&d.decls[i]).last().map(|f| &f.d), Some(FieldDesc::Array { .. })) {
                return None; // a following array could be mistaken for padding rules; keep it simple
            }
            let w = 8 * s.below(4) as u32 + 1 + s.below(7) as u32;
            let cnt = if s.bool() { Some(1 + s.below(4) as u64) } else { None };
            fields_mut(&mut d.decls[i])?.push(Field::new(FieldDesc::Array { id: "zarr".into(), elem: Elem::Bits(w), count: cnt, modifier: None }));
            Some(Edit { desc: d, expect: vec![52, 53], ctx: format!("width%8={}", w % 8), legal: false })
        }
        60 => {
            // declaration of 8k + r bits
            let i = pick_leaf_packet(&d, s)?;
            let r = 1 + s.below(7) as u32;
            fields_mut(&mut d.decls[i])?.push(sc("zbits", r + 8 * s.below(3) as u32));
            e(d, 53, "trailing-bits")
        }
        61 => {
            // control: whole octets appended
            let i = pick_rec(s)?;
            fields_mut(&mut d.decls[i])?.push(sc("zbits", 8 * (1 + s.below(8)) as u32));
            Some(Edit { desc: d, expect: vec![], ctx: "trailing-octets".into(), legal: true })
        }
        62 => {
            // optional field at a bit offset: `zf : 1, zo : 8 if zf = 1, _reserved_ : 7`
            let i = pick_rec(s)?;
            let fs = fields_mut(&mut d.decls[i])?;
            fs.insert(0, sc("zflag", 1));
            fs.insert(1, Field { d: FieldDesc::Scalar { id: "zo".into(), w: 8 }, cond: Some(("zflag".into(), 1)) });
            fs.insert(2, Field::new(FieldDesc::Reserved { w: 7 }));
            e(d, 51, "optional-at-bit-offset")
        }
        _ => {
            // size / count field declared after its array (no code exists: must still be rejected or handled)
            None
        }
    }
}

fn viol(text: &str, observed: &str, detail: String, d: &Desc, ctx: &str) -> Viol {
    Viol {
        message: format!("{observed}: {detail}"),
        record: json!({"property": "C08", "op": "analyze", "observed": observed, "detail": detail, "pdl": text, "model": d, "type": Value::Null, "class": ctx, "signature": format!("C08|analyze|{observed}")}),
    }
}

/// Returns Ok(outcome label) or the violation.
pub fn check_edit(ed: &Edit, kf: &pdlv_core::kf::Kf, acc: &mut Acc) -> Result<(), Viol> {
    let text = plain(&ed.desc);
    let code_s = ed.expect.first().map(|c| format!("E{c}")).unwrap_or("legal".into());
    let label = format!("{code_s}:{}", ed.ctx);
    let tags: std::collections::BTreeSet<String> = [format!("ctx:{label}")].into_iter().collect();
    let mut fail = |observed: String, detail: String, acc: &mut Acc| -> Result<(), Viol> {
        match kf.matches("C08", "analyze", &observed, &tags) {
            Some(k) => {
                acc.eval(&label, "known-finding");
                acc.known(&k.id);
                Ok(())
            }
            None => Err(viol(&text, &observed, detail, &ed.desc, &label)),
        }
    };
    let (file, db) = match guarded(|| parse("c08.pdl", &text)) {
        Ok(Ok(x)) => x,
        Ok(Err(e)) => return fail("parser-rejects-edit".into(), e, acc),
        Err(p) => return fail("parser-panic".into(), p, acc),
    };
    match guarded(|| analyze(&file)) {
        Err(p) => fail(format!("analyzer-panic:{}", pdlv_core::harness::panic_class(&p)), p, acc),
        Ok(Ok(_)) => {
            if ed.legal {
                acc.eval(&label, "accepted(control)");
                acc.nontrivial(fnv(&[text.as_bytes()]), || json!({"pdl": text, "edit": label, "verdict": "accepted (legal neighbour)"}));
                Ok(())
            } else {
                fail(format!("accepts-ill-formed:{code_s}"), format!("edit {label}"), acc)
            }
        }
        Ok(Err(diags)) => {
            let codes: Vec<String> = diags.diagnostics.iter().filter_map(|x| x.code.clone()).collect();
            if ed.legal {
                return fail(format!("rejects-legal-neighbour:{}", codes.join("+")), format!("edit {label}"), acc);
            }
            // labels inside the file
            let len = text.len();
            for dg in &diags.diagnostics {
                for l in &dg.labels {
                    if l.range.start > l.range.end || l.range.end > len || l.file_id != file.file {
                        return fail("label-outside-file".into(), format!("{:?} in a file of {len} octets", l.range), acc);
                    }
                }
                if dg.labels.is_empty() {
                    return fail("diagnostic-without-label".into(), format!("{:?}", dg.message), acc);
                }
            }
            let mut buf = codespan_reporting::term::termcolor::Buffer::no_color();
            match guarded(|| diags.emit(&db, &mut buf)) {
                Ok(Ok(())) => {}
                Ok(Err(e)) => return fail("emit-fails".into(), format!("{e:?}"), acc),
                Err(p) => return fail("emit-panics".into(), p, acc),
            }
            if !ed.expect.iter().any(|c| codes.contains(&format!("E{c}"))) {
                return fail(format!("wrong-code:{code_s}->{}", codes.join("+")), format!("edit {label}"), acc);
            }
            acc.eval(&label, "rejected-with-code");
            acc.nontrivial(fnv(&[text.as_bytes()]), || json!({"pdl": text, "edit": label, "codes": codes}));
            Ok(())
        }
    }
}

pub fn run(tier: &str, seed: u64) -> i32 {
    let t0 = std::time::Instant::now();
    let (kf, _) = crate::rustharness::load_kf();
    let thorough = tier == "thorough";
    let n = if thorough { 600_000 } else { 60_000 };
    std::panic::set_hook(Box::new(|_| {}));
    let kf2 = kf.clone();
    let survey = std::env::var("PDLV_SURVEY").is_ok();
    let mut partial = run_parallel("C08", seed, "C08", n, 800, move |st, acc| {
        let mut s = Src::new(st);
        let op = s.below(N_OPS);
        let big = s.bool();
        let stratum = s.below(N_STRATA);
        let (d, _) = gen_desc(&st[8..], &Profile::front_end(), Some(stratum), big);
        let mut es = Src::new(&st[650..]);
        match apply(op, &d, &mut es) {
            None => {
                acc.skip(&format!("operator-{op}-not-applicable"));
                Ok(())
            }
            Some(ed) => match check_edit(&ed, &kf2, acc) {
                Err(v) if survey => {
                    // calibration aid: tabulate instead of failing
                    acc.eval(&format!("SURVEY {} {}", v.record["class"].as_str().unwrap_or(""), v.record["observed"].as_str().unwrap_or("")), "survey");
                    Ok(())
                }
                r => r,
            },
        }
    });
    if survey {
        for (k, v) in &partial.labels {
            if k.starts_with("SURVEY") {
                println!("{v:6} {k}");
            }
        }
        return 2;
    }
    // committed replays of known findings
    let mut known_reproduced = vec![];
    for f in kf.for_property("C08") {
        if let Ok(t) = std::fs::read_to_string(format!("{VERIF}/{}", f.replay)) {
            if let Ok(v) = serde_json::from_str::<Value>(&t) {
                if let Ok(d) = serde_json::from_value::<Desc>(v["model"].clone()) {
                    let ctx = v["class"].as_str().unwrap_or("").to_string();
                    let code: u16 = ctx.trim_start_matches('E').split(':').next().and_then(|c| c.parse().ok()).unwrap_or(0);
                    let ed = Edit { desc: d, expect: vec![code], ctx: ctx.splitn(2, ':').nth(1).unwrap_or("").to_string(), legal: false };
                    let mut a = Acc::new("C08");
                    let _ = check_edit(&ed, &kf, &mut a);
                    if a.p.known.contains_key(&f.id) {
                        known_reproduced.push(f.id.clone());
                    }
                }
            }
        }
    }
    partial.programs = partial.evaluations;
    let v = Verdict {
        property: "C08".into(),
        tier: tier.into(),
        seed,
        partial,
        rule: "a well-formed front-end description from the generator plus exactly one edit from a catalogue of 63 operators keyed by ErrorCode (E1-E8, E11-E49, E51-E53; contexts: root/child/group, local/through-group/inherited, first/last position; numeric boundaries 2^w vs 2^w-1 for w in 1..63, touching vs overlapping ranges, bit offsets 1/3/4/7/9/15 vs 8k). Each operator leaves every earlier analyzer pass quiet. Oracle: analyze() returns Err, one diagnostic carries the operator's code, every label lies inside the file and belongs to it, emit() renders without failure or panic; control edits (legal neighbours) must be accepted. Non-trivial: every edited description; distinct by text.".into(),
        assumptions: vec!["E9/E10 (test declarations) are out of reach: the parser drops test declarations before the analyzer sees them".into(), "the operator's expected code is taken from the ErrorCode enum and the reference; on the unchanged tree every operator was calibrated to leave earlier passes quiet".into()],
        extra: json!({}),
        wall_s: t0.elapsed().as_secs_f64(),
        known_reproduced,
    };
    finish(v, &kf)
}

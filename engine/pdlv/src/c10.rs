//! C10 - the compiler never crashes, and what it accepts becomes compilable code.
//! Front half (in-process): arbitrary texts, token soup, mutated valid sources, absurd ASTs and
//! accepted descriptions per backend profile must never make a stage panic.
//! Back half: code emitted for accepted descriptions is accepted by syn, rustc (harness crate),
//! CPython, g++ and javac.
use crate::compile::*;
use crate::inproc::*;
use crate::report::*;
use pdlv_core::choice::Src;
use pdlv_core::evidence::{fnv, Acc};
use pdlv_core::gen::*;
use pdlv_core::harness::panic_class;
use pdlv_core::kf::Kf;
use pdlv_core::model::*;
use pdlv_core::print::*;
use serde_json::{json, Value};
use std::collections::BTreeSet;

fn viol(text: &str, op: &str, observed: &str, detail: String) -> Viol {
    Viol {
        message: format!("{op}: {observed}: {detail}"),
        record: json!({"property": "C10", "op": op, "observed": observed, "detail": detail, "text": text, "type": Value::Null, "signature": format!("C10|{op}|{observed}")}),
    }
}

const VOCAB: &[&str] = &[
    "little_endian_packets", "big_endian_packets", "enum", "packet", "struct", "group", "checksum", "custom_field", "test", "_size_", "_count_", "_elementsize_", "_payload_", "_body_", "_fixed_", "_reserved_", "_padding_",
    "_checksum_start_", "if", "{", "}", "(", ")", "[", "]", ":", ",", "=", "..", "+", "A", "B", "x", "y", "Foo", "0", "1", "8", "16", "64", "65", "0x10", "0XFF", "18446744073709551615", "18446744073709551616", "\"s\"", "+3", "/*c*/", "//c\n",
];

pub enum Stage {
    ParseErr,
    AnalyzeErr,
    Accepted,
}

/// Run the pipeline on `text`; `backends`: which generators must handle it if accepted.
pub fn pipeline(text: &str, backends: &[&str], kf: &Kf, acc: &mut Acc, label: &str, tags: &BTreeSet<String>) -> Result<Stage, Viol> {
    let survey = std::env::var("PDLV_SURVEY").is_ok();
    let mut fail = |op: &str, observed: String, detail: String, acc: &mut Acc| -> Result<(), Viol> {
        match kf.matches("C10", op, &observed, tags) {
            Some(k) => {
                acc.known(&k.id);
                Ok(())
            }
            None if survey => {
                acc.eval(&format!("SURVEY {op} {observed}"), "survey");
                if acc.p.notes.len() < 40 && !acc.p.notes.iter().any(|n| n.starts_with(&format!("{op} {observed}"))) {
                    acc.p.notes.push(format!("{op} {observed}\n{text}"));
                }
                Ok(())
            }
            None => Err(viol(text, op, &observed, detail)),
        }
    };
    let (f, db) = match guarded(|| parse("c10.pdl", text)) {
        Err(p) => {
            fail("parse", format!("panic:{}", panic_class(&p)), p, acc)?;
            acc.eval(label, "known-panic");
            return Ok(Stage::ParseErr);
        }
        Ok(Err(_)) => {
            acc.eval(label, "parse-error");
            return Ok(Stage::ParseErr);
        }
        Ok(Ok(x)) => x,
    };
    let af = match guarded(|| analyze(&f)) {
        Err(p) => {
            fail("analyze", format!("panic:{}", panic_class(&p)), p, acc)?;
            acc.eval(label, "known-panic");
            return Ok(Stage::AnalyzeErr);
        }
        Ok(Err(dg)) => {
            // diagnostics must render
            let mut buf = codespan_reporting::term::termcolor::Buffer::no_color();
            match guarded(|| dg.emit(&db, &mut buf)) {
                Ok(Ok(())) => {}
                Ok(Err(e)) => fail("emit", "error".into(), format!("{e:?}"), acc)?,
                Err(p) => fail("emit", format!("panic:{}", panic_class(&p)), p, acc)?,
            }
            acc.eval(label, "analyzer-rejects");
            return Ok(Stage::AnalyzeErr);
        }
        Ok(Ok(af)) => af,
    };
    for b in std::iter::once(&"json").chain(backends.iter()) {
        let r: Result<(), String> = match *b {
            "json" => guarded(|| pdl_compiler::backends::json::generate(&f)).and_then(|r| r.map(|_| ())),
            "rust" => guarded(|| pdl_compiler::backends::rust::generate(&db, &af, &[])).and_then(|code| syn::parse_file(&code).map(|_| ()).map_err(|e| format!("generated Rust does not parse: {e}"))),
            "python" => guarded(|| pdl_compiler::backends::python::generate(&db, &af, None, &[])).map(|_| ()),
            "cxx" => guarded(|| pdl_compiler::backends::cxx::generate(&db, &af, Some("ns"), &[], &[], &[])).map(|_| ()),
            "java" => {
                // one scratch directory per call: two workers may hold the same text
                static N: std::sync::atomic::AtomicU64 = std::sync::atomic::AtomicU64::new(0);
                let dir = crate::rustharness::work_dir().join(format!("java-c10/{}-{}-{:016x}", std::process::id(), N.fetch_add(1, std::sync::atomic::Ordering::Relaxed), fnv(&[text.as_bytes()])));
                let r = guarded(|| pdl_compiler::backends::java::generate(&db, &af, &[], &dir, "p")).and_then(|r| r);
                let _ = std::fs::remove_dir_all(&dir);
                r
            }
            _ => Ok(()),
        };
        if let Err(p) = r {
            fail(&format!("generate:{b}"), format!("panic:{}", panic_class(&p)), p, acc)?;
        }
    }
    acc.eval(label, "accepted");
    Ok(Stage::Accepted)
}

fn mutate_tokens(toks: &Tokens, s: &mut Src, other: Option<&Tokens>) -> String {
    let mut t: Vec<String> = toks.toks.iter().map(|x| x.text.clone()).collect();
    let n = 1 + s.below(4);
    for _ in 0..n {
        if t.is_empty() {
            break;
        }
        let i = s.below(t.len());
        match s.below(6) {
            0 => {
                t.remove(i);
            }
            1 => {
                let x = t[i].clone();
                t.insert(i, x);
            }
            2 => {
                let j = s.below(t.len());
                t.swap(i, j);
            }
            3 => t[i] = (*s.pick(VOCAB)).to_string(),
            4 => t.insert(i, (*s.pick(VOCAB)).to_string()),
            _ => {
                if let Some(o) = other {
                    // splice: tail of another file
                    let j = s.below(o.toks.len().max(1));
                    t.truncate(i);
                    t.extend(o.toks[j.min(o.toks.len())..].iter().map(|x| x.text.clone()));
                }
            }
        }
    }
    t.join(" ") + "\n"
}

pub fn front_half(tier: &str, seed: u64, kf: &Kf) -> pdlv_core::evidence::Partial {
    let thorough = tier == "thorough";
    let n = if thorough { 400_000 } else { 40_000 };
    let kf = kf.clone();
    run_parallel("C10", seed, "C10/front", n, 1700, move |st, acc| {
        let mut s = Src::new(st);
        let class = s.weighted(&[2, 3, 5, 4, 6]);
        let none = BTreeSet::new();
        match class {
            0 => {
                // random bytes as (lossy) UTF-8, with a valid header half of the time
                let n = s.below(80);
                let raw: Vec<u8> = (0..n).map(|_| if s.below(4) == 0 { s.below(256) as u8 } else { *s.pick(b" \n\t{}():,=[]._09azAZ\"/*+xX") }).collect();
                let mut text = if s.bool() { "little_endian_packets\n".to_string() } else { String::new() };
                text.push_str(&String::from_utf8_lossy(&raw));
                let st = pipeline(&text, &[], &kf, acc, "random-text", &none)?;
                if !matches!(st, Stage::ParseErr) {
                    acc.nontrivial(fnv(&[text.as_bytes()]), || json!({"text": text, "class": "random-text"}));
                }
            }
            1 => {
                let n = 1 + s.below(60);
                let mut t = vec![(*s.pick(&["little_endian_packets", "big_endian_packets"])).to_string()];
                for _ in 0..n {
                    t.push((*s.pick(VOCAB)).to_string());
                }
                let text = t.join(" ") + "\n";
                let st = pipeline(&text, &[], &kf, acc, "token-soup", &none)?;
                if !matches!(st, Stage::ParseErr) {
                    acc.nontrivial(fnv(&[text.as_bytes()]), || json!({"text": text, "class": "token-soup"}));
                }
            }
            2 => {
                let (d, _) = gen_desc(&st[8..], &Profile::front_end(), Some(s.below(N_STRATA)), s.bool());
                let (d2, _) = gen_desc(&st[500..], &Profile::front_end(), None, false);
                let mut ms = Src::new(&st[1100..]);
                let text = mutate_tokens(&tokens(&d), &mut ms, Some(&tokens(&d2)));
                let st = pipeline(&text, &[], &kf, acc, "mutated-valid-source", &none)?;
                if !matches!(st, Stage::ParseErr) {
                    acc.nontrivial(fnv(&[text.as_bytes()]), || json!({"text": text, "class": "mutated-valid-source"}));
                }
            }
            3 => {
                let d = gen_absurd(&st[8..], s.bool());
                let text = plain(&d);
                pipeline(&text, &[], &kf, acc, "absurd-ast", &none)?;
                acc.nontrivial(fnv(&[text.as_bytes()]), || json!({"text": text, "class": "absurd-ast"}));
            }
            _ => {
                // accepted descriptions, each backend on its own profile
                let (pname, backends): (&str, &[&str]) = *s.pick(&[("rust", &["rust"][..]), ("python", &["python"][..]), ("cxx", &["cxx"][..]), ("java", &["java"][..]), ("rust-rt", &["rust"][..])]);
                let (d, _) = gen_desc(&st[8..], &Profile::by_name(pname), Some(s.below(N_STRATA)), s.bool());
                // half of the accepted descriptions are laid out with random white space (tabs, carriage returns,
                // comments, radix): the concrete syntax must not matter to any stage either
                let text = if s.bool() {
                    let mut ls = Src::new(&st[1200..]);
                    let tc = ls.bool();
                    random_layout(&tokens(&d), &mut ls, tc).text
                } else {
                    plain(&d)
                };
                let mut tags: BTreeSet<String> = [format!("profile:{pname}")].into_iter().collect();
                tags.extend(pdlv_core::dtags::desc_tags(&d));
                match pipeline(&text, backends, &kf, acc, &format!("accepted:{pname}"), &tags)? {
                    Stage::Accepted => {
                        acc.nontrivial(fnv(&[text.as_bytes()]), || json!({"text": text, "class": format!("profile:{pname}")}));
                    }
                    _ => return Err(viol(&text, "analyze", "rejects-well-formed", pname.to_string())),
                }
            }
        }
        Ok(())
    })
}

/// Coverage-guided leg of the thorough tier: the libFuzzer target /verif/fuzz/fuzz_targets/fz_compile.rs
/// (cargo-fuzz, nightly) is built and run as `jobs` independent campaigns of `runs` executions from fresh
/// corpus directories seeded with the repository's own description files.  A crash artifact is an
/// untolerated panic (violation); timeout / out-of-memory artifacts are inconclusive.
pub fn fuzz_campaign(seed: u64, jobs: usize, runs: u64) -> Result<(pdlv_core::evidence::Partial, bool), String> {
    use std::process::Command;
    let tdir = format!("{VERIF}/.work/target-fuzz");
    let o = Command::new("cargo").args(["+nightly", "fuzz", "build", "--fuzz-dir", &format!("{VERIF}/fuzz"), "fz_compile"]).env("CARGO_TARGET_DIR", &tdir).env("CARGO_NET_OFFLINE", "true").current_dir(format!("{VERIF}/fuzz")).output().map_err(|e| format!("cargo fuzz build: {e}"))?;
    if !o.status.success() {
        return Err(format!("cargo +nightly fuzz build failed: {}", String::from_utf8_lossy(&o.stderr).lines().rev().take(5).collect::<Vec<_>>().join(" | ")));
    }
    let exe = format!("{tdir}/x86_64-unknown-linux-gnu/release/fz_compile");
    let base = crate::rustharness::work_dir().join(format!("fuzz-c10-{seed}"));
    let _ = std::fs::remove_dir_all(&base);
    let mut seeds: Vec<std::path::PathBuf> = vec![];
    for d in ["/repo/pdl-compiler/tests/canonical", "/repo/pdl-tests/tests", &format!("{VERIF}/corpus"), &format!("{VERIF}/fuzz/seeds")] {
        if let Ok(rd) = std::fs::read_dir(d) {
            let mut v: Vec<_> = rd.flatten().map(|e| e.path()).filter(|p| p.is_file() && p.metadata().map(|m| m.len() < 4096).unwrap_or(false)).collect();
            v.sort();
            seeds.extend(v);
        }
    }
    let outs: Vec<(usize, std::io::Result<std::process::Output>)> = std::thread::scope(|sc| {
        let hs: Vec<_> = (0..jobs)
            .map(|j| {
                let (exe, base, seeds) = (&exe, &base, &seeds);
                sc.spawn(move || {
                    let corpus = base.join(format!("corpus{j}"));
                    let arts = base.join(format!("artifacts{j}"));
                    let _ = std::fs::create_dir_all(&corpus);
                    let _ = std::fs::create_dir_all(&arts);
                    for (k, f) in seeds.iter().enumerate() {
                        // description files become raw-text inputs (first octet even)
                        if let Ok(mut b) = std::fs::read(f) {
                            b.insert(0, 0);
                            let _ = std::fs::write(corpus.join(format!("seed{k}")), b);
                        }
                    }
                    let s = pdlv_core::choice::mix(seed, &format!("C10/libfuzzer/{j}")) as u32 | 1;
                    (j, Command::new(exe).arg(&corpus).args([format!("-runs={runs}"), format!("-seed={s}"), "-max_len=700".into(), "-len_control=0".into(), "-timeout=30".into(), "-rss_limit_mb=4096".into(), "-print_final_stats=1".into(), format!("-dict={VERIF}/fuzz/pdl.dict"), format!("-artifact_prefix={}/", arts.display())]).env("PDLV_KF", format!("{VERIF}/known_findings.txt")).output())
                })
            })
            .collect();
        hs.into_iter().map(|h| h.join().unwrap()).collect()
    });
    let mut acc = Acc::new("C10");
    let mut inconclusive = false;
    for (j, o) in outs {
        let o = o.map_err(|e| format!("fuzz job {j}: {e}"))?;
        let err = String::from_utf8_lossy(&o.stderr).to_string();
        let stat = |k: &str| err.lines().rev().find_map(|l| l.strip_prefix(k).map(|r| r.trim().parse::<u64>().unwrap_or(0))).unwrap_or(0);
        let done = stat("stat::number_of_executed_units:");
        let corp = std::fs::read_dir(base.join(format!("corpus{j}"))).map(|r| r.count()).unwrap_or(0) as u64;
        let cov = err.lines().rev().find(|l| l.contains(" cov: ")).map(|l| l.split_whitespace().skip_while(|w| *w != "cov:").take(4).collect::<Vec<_>>().join(" ")).unwrap_or_default();
        acc.p.evaluations += done;
        *acc.p.labels.entry("libfuzzer:fz_compile".into()).or_default() += done;
        acc.p.notes.push(format!("libFuzzer campaign {j}: {done} executions, {corp} corpus inputs at the end ({cov}), exit {:?}", o.status.code()));
        // inputs that added coverage are counted as the distinct non-trivial ones of this leg
        for f in std::fs::read_dir(base.join(format!("corpus{j}"))).into_iter().flatten().flatten() {
            if let Ok(b) = std::fs::read(f.path()) {
                acc.nontrivial(fnv(&[b"libfuzzer", &b]), || json!({"class": "libfuzzer corpus input", "octets": pdlv_core::props::hex(&b[..b.len().min(120)])}));
            }
        }
        for f in std::fs::read_dir(base.join(format!("artifacts{j}"))).into_iter().flatten().flatten() {
            let name = f.file_name().to_string_lossy().to_string();
            let b = std::fs::read(f.path()).unwrap_or_default();
            if name.starts_with("crash-") {
                let msg = err.lines().find(|l| l.starts_with("C10-FUZZ-PANIC")).unwrap_or("crash without a C10-FUZZ-PANIC line (sanitizer report?)").to_string();
                let text = pdlv_core::fuzzdec::text_of(&b);
                let keep = format!("{VERIF}/replays/C10-libfuzzer-{:016x}.bin", fnv(&[&b]));
                let _ = std::fs::create_dir_all(format!("{VERIF}/replays"));
                let _ = std::fs::write(&keep, &b);
                acc.p.violations.push(json!({"property": "C10", "op": "libfuzzer:fz_compile", "observed": "untolerated-panic", "detail": msg.chars().take(400).collect::<String>(), "text": text, "input": {"hex": pdlv_core::props::hex(&b)}, "type": Value::Null,
                    "artifact": keep, "how_to_run": format!("{exe} {keep}"), "signature": format!("C10|libfuzzer|{}", msg.chars().take(80).collect::<String>())}));
            } else if name.starts_with("slow-unit-") {
                // informational: an input slower than libFuzzer's -report_slow_units threshold that still finished
                acc.p.notes.push(format!("libFuzzer campaign {j}: slow unit {name} (finished within the timeout)"));
            } else {
                inconclusive = true;
                acc.p.notes.push(format!("libFuzzer campaign {j}: artifact {name} (timeout / out of memory / leak): inconclusive, not a violation"));
            }
        }
        if done == 0 && !o.status.success() && acc.p.violations.is_empty() {
            inconclusive = true;
            acc.p.notes.push(format!("libFuzzer campaign {j} did not run: {}", err.lines().rev().take(3).collect::<Vec<_>>().join(" | ")));
        }
    }
    let _ = std::fs::remove_dir_all(&base);
    Ok((acc.p, inconclusive))
}

pub fn run(tier: &str, seed: u64) -> i32 {
    let t0 = std::time::Instant::now();
    let (kf, _) = crate::rustharness::load_kf();
    std::panic::set_hook(Box::new(|_| {}));
    let mut partial = front_half(tier, seed, &kf);
    partial.programs = partial.evaluations;
    if std::env::var("PDLV_SURVEY").as_deref() == Ok("back") {
        let back = crate::backhalf::run(tier, seed, &kf);
        let mut best: std::collections::BTreeMap<String, (usize, String, String)> = Default::default();
        for v in &back.partial.violations {
            let k = format!("{} {}", v["op"].as_str().unwrap_or(""), v["observed"].as_str().unwrap_or(""));
            let t = v["text"].as_str().unwrap_or("").to_string();
            let e = best.entry(k).or_insert((0, t.clone(), v["detail"].as_str().unwrap_or("").to_string()));
            e.0 += 1;
            if t.len() < e.1.len() {
                e.1 = t;
                e.2 = v["detail"].as_str().unwrap_or("").to_string();
            }
        }
        for (k, (n, t, d)) in best {
            println!("==== {n} x {k}\n{d}\n{t}");
        }
        println!("{}", back.extra);
        return 2;
    }
    if std::env::var("PDLV_SURVEY").is_ok() {
        for (k, v) in &partial.labels {
            if k.starts_with("SURVEY") {
                println!("{v:6} {k}");
            }
        }
        let mut seen = std::collections::BTreeSet::new();
        for n in &partial.notes {
            if seen.insert(n.lines().next().unwrap_or("").to_string()) {
                println!("---- {n}");
            }
        }
        return 2;
    }
    // back half
    let back = crate::backhalf::run(tier, seed, &kf);
    let extra = back.extra.clone();
    partial.merge(back.partial);
    let mut fuzz_inconclusive = false;
    if tier == "thorough" {
        match fuzz_campaign(seed, 8, 1_000_000) {
            Ok((p, inc)) => {
                partial.merge(p);
                fuzz_inconclusive = inc;
            }
            Err(e) => {
                eprintln!("infrastructure: coverage-guided leg: {e}");
                return 2;
            }
        }
    }
    let mut known_reproduced = vec![];
    for f in kf.for_property("C10") {
        if let Ok(t) = std::fs::read_to_string(format!("{VERIF}/{}", f.replay)) {
            if let Ok(v) = serde_json::from_str::<Value>(&t) {
                let text = v["text"].as_str().unwrap_or("").to_string();
                let backends: Vec<String> = v["backends"].as_array().map(|a| a.iter().filter_map(|x| x.as_str().map(|s| s.to_string())).collect()).unwrap_or_default();
                let b: Vec<&str> = backends.iter().map(|s| s.as_str()).collect();
                let mut tags: BTreeSet<String> = v["tags"].as_array().map(|a| a.iter().filter_map(|x| x.as_str().map(|s| s.to_string())).collect()).unwrap_or_default();
                if let Ok(d) = desc_of_text("f.pdl", &text) {
                    tags.extend(pdlv_core::dtags::desc_tags(&d));
                }
                let mut a = Acc::new("C10");
                let _ = pipeline(&text, &b, &kf, &mut a, "finding", &tags);
                if v["op"].as_str().map(|o| o.starts_with("compile:")).unwrap_or(false) {
                    // back-half finding: compile the single description with the named toolchain
                    crate::backhalf::compile_one(&text, b.first().copied().unwrap_or(""), &kf, &mut a);
                }
                if a.p.known.contains_key(&f.id) {
                    known_reproduced.push(f.id.clone());
                }
            }
        }
    }
    let v = Verdict {
        property: "C10".into(),
        tier: tier.into(),
        seed,
        partial,
        rule: "front half, in-process with panics caught: random (lossy UTF-8) texts, token soup from the PDL vocabulary (incl. 2^64 and 2^64-1 literals), mutated valid sources (token delete / duplicate / swap / replace / insert / splice of two files), semantically absurd ASTs printed as text, and accepted descriptions drawn from each backend's profile handed to that backend (json always; Rust output must also re-parse with syn; Java output written to a scratch directory). Oracle: parse returns; if Ok analyze returns and its diagnostics render; if Ok every backend in whose profile the description lies returns. Back half: the descriptions of the compiled batches: rustc type-checks the Rust harness crate (offending modules bisected from the diagnostics), CPython compile()+import of the Python module, g++ -std=c++17 -fsyntax-only of the C++ header, javac of the Java package. Thorough tier only: a coverage-guided leg, 8 libFuzzer campaigns of 10^6 executions each on /verif/fuzz fz_compile (octets taken as text or as a token stream over the vocabulary; parse, analyze, diagnostics rendering, JSON generator under catch_unwind; a panic not matching a listed finding aborts), from fresh corpora seeded with the repository's description files; its corpus inputs at the end (inputs that added coverage) are what it contributes to the distinct non-trivial count. Non-trivial: texts that parse, and accepted descriptions; distinct by text.".into(),
        assumptions: vec!["non-termination and stack exhaustion are only observed as a worker death (exit 2); worker threads have a 64 MiB stack".into(), "descriptions outside a backend's documented support list are not handed to that backend".into()],
        extra,
        wall_s: t0.elapsed().as_secs_f64(),
        known_reproduced,
    };
    let code = finish(v, &kf);
    if code == 0 && fuzz_inconclusive {
        eprintln!("inconclusive: a libFuzzer campaign ended with a timeout / out-of-memory artifact");
        return 2;
    }
    code
}

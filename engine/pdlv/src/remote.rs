//! Checks on the non-Rust backends: the generated code runs in a long-lived child process
//! (line protocol on pipes); the property loops and oracles run here.
use crate::report::*;
use crate::rustharness::work_dir;
use pdlv_core::choice::{run_streams, Src};
use pdlv_core::evidence::{fnv, Acc, Partial};
use pdlv_core::kf::Kf;
use pdlv_core::model::*;
use pdlv_core::props::{gen_case, hex, type_tags, unhex, Input};
use pdlv_core::refcodec::*;
use serde_json::{json, Value};
use std::collections::BTreeSet;
use std::io::{BufRead, BufReader, Write};
use std::process::{Child, ChildStdin, ChildStdout, Command, Stdio};

#[derive(Debug, Clone)]
pub enum RDec {
    Ok { class: String, value: Value, reser: Result<Vec<u8>, String>, size: Result<u64, String> },
    /// `proper`: the backend's documented error type (Python: DecodeError subclass)
    Err { class: String, proper: bool, msg: String },
    Crash(String),
}

#[derive(Debug, Clone)]
pub enum REnc {
    Ok { bytes: Vec<u8>, size: Result<u64, String> },
    Err { class: String, msg: String },
    Crash(String),
}

pub struct Pipe {
    pub child: Child,
    stdin: ChildStdin,
    stdout: BufReader<ChildStdout>,
    n: u64,
}

impl Pipe {
    pub fn spawn(mut cmd: Command) -> Result<Pipe, String> {
        let mut child = cmd.stdin(Stdio::piped()).stdout(Stdio::piped()).stderr(Stdio::piped()).spawn().map_err(|e| e.to_string())?;
        let stdin = child.stdin.take().unwrap();
        let stdout = BufReader::new(child.stdout.take().unwrap());
        Ok(Pipe { child, stdin, stdout, n: 0 })
    }
    /// one request, one reply (fields after the sequence number); Err = the child died
    pub fn call(&mut self, fields: &[&str]) -> Result<Vec<String>, String> {
        self.n += 1;
        let line = format!("{}\t{}\n", self.n, fields.join("\t"));
        self.stdin.write_all(line.as_bytes()).map_err(|e| format!("write: {e}"))?;
        self.stdin.flush().map_err(|e| format!("flush: {e}"))?;
        let mut reply = String::new();
        loop {
            reply.clear();
            let k = self.stdout.read_line(&mut reply).map_err(|e| format!("read: {e}"))?;
            if k == 0 {
                let mut err = String::new();
                if let Some(mut e) = self.child.stderr.take() {
                    use std::io::Read;
                    let _ = e.read_to_string(&mut err);
                }
                let st = self.child.wait().map(|s| format!("{s:?}")).unwrap_or_default();
                return Err(format!("child died ({st}): {}", err.lines().rev().take(6).collect::<Vec<_>>().join(" | ")));
            }
            let parts: Vec<String> = reply.trim_end_matches('\n').split('\t').map(|s| s.to_string()).collect();
            if parts.first().map(|s| s == &self.n.to_string()).unwrap_or(false) {
                return Ok(parts[1..].to_vec());
            }
            // stray output of the generated code (prints): skip
        }
    }
}

impl Drop for Pipe {
    fn drop(&mut self) {
        let _ = self.stdin.write_all(b"0\tQ\n");
        let _ = self.child.kill();
        let _ = self.child.wait();
    }
}

pub trait Target {
    /// decode `b` as `ty`; `root` is the root ancestor of `ty`
    fn dec(&mut self, di: usize, ty: &str, root: &str, b: &[u8]) -> RDec;
    fn enc(&mut self, di: usize, ty: &str, v: &Value) -> REnc;
    /// restart after a crash
    fn restart(&mut self) -> Result<(), String>;
    /// targets that cannot build values at run time (C++) list the values compiled into them
    fn baked_values(&self, _di: usize, _ty: &str) -> Option<Vec<Value>> {
        None
    }
}

// ------------------------------------------------------------------------------------- Python

pub struct PyTarget {
    pub dir: std::path::PathBuf,
    pipe: Pipe,
}

impl PyTarget {
    pub fn new(dir: &std::path::Path) -> Result<PyTarget, String> {
        Ok(PyTarget { dir: dir.to_path_buf(), pipe: Self::spawn(dir)? })
    }
    fn spawn(dir: &std::path::Path) -> Result<Pipe, String> {
        let mut c = Command::new("python3");
        c.arg(format!("{VERIF}/harness-rt/driver.py")).arg(dir).env("PYTHONHASHSEED", "0").env("PYTHONDONTWRITEBYTECODE", "1");
        Pipe::spawn(c)
    }
}

impl Target for PyTarget {
    fn dec(&mut self, di: usize, _ty: &str, root: &str, b: &[u8]) -> RDec {
        match self.pipe.call(&["D", &format!("m{di}"), root, &hex(b)]) {
            Err(e) => RDec::Crash(e),
            Ok(p) => match p.first().map(|s| s.as_str()) {
                Some("OK") if p.len() >= 5 => RDec::Ok {
                    class: p[1].clone(),
                    value: serde_json::from_str(&p[2]).unwrap_or(Value::Null),
                    reser: if p[3].starts_with("EXC:") { Err(p[3].clone()) } else { Ok(unhex(&p[3])) },
                    size: p[4].parse::<u64>().map_err(|_| p[4].clone()),
                },
                Some("ERR") if p.len() >= 3 => RDec::Err { class: p[1].clone(), proper: p[2] == "1", msg: p.get(3).cloned().unwrap_or_default() },
                _ => RDec::Crash(format!("protocol: {:?}", p)),
            },
        }
    }
    fn enc(&mut self, di: usize, ty: &str, v: &Value) -> REnc {
        match self.pipe.call(&["E", &format!("m{di}"), ty, &v.to_string()]) {
            Err(e) => REnc::Crash(e),
            Ok(p) => match p.first().map(|s| s.as_str()) {
                Some("OK") if p.len() >= 3 => REnc::Ok { bytes: unhex(&p[1]), size: p[2].parse::<u64>().map_err(|_| p[2].clone()) },
                Some("ERR") if p.len() >= 2 => REnc::Err { class: p[1].clone(), msg: p.get(3).cloned().unwrap_or_default() },
                _ => REnc::Crash(format!("protocol: {:?}", p)),
            },
        }
    }
    fn restart(&mut self) -> Result<(), String> {
        self.pipe = Self::spawn(&self.dir)?;
        Ok(())
    }
}

// ------------------------------------------------------------------------------------- Rust (harness in --serve mode)

pub struct RustTarget {
    exe: std::path::PathBuf,
    batch: std::path::PathBuf,
    pipe: Pipe,
}

impl RustTarget {
    pub fn new(exe: &std::path::Path, batch: &std::path::Path) -> Result<RustTarget, String> {
        Ok(RustTarget { exe: exe.to_path_buf(), batch: batch.to_path_buf(), pipe: Self::spawn(exe, batch)? })
    }
    fn spawn(exe: &std::path::Path, batch: &std::path::Path) -> Result<Pipe, String> {
        let mut c = Command::new(exe);
        c.args(["--prop", "C07", "--serve", "--batch"]).arg(batch).env("RUST_BACKTRACE", "0");
        Pipe::spawn(c)
    }
}

impl Target for RustTarget {
    fn dec(&mut self, di: usize, ty: &str, _root: &str, b: &[u8]) -> RDec {
        match self.pipe.call(&["D", &di.to_string(), ty, &hex(b)]) {
            Err(e) => RDec::Crash(e),
            Ok(p) => match p.first().map(|s| s.as_str()) {
                Some("OK") if p.len() >= 4 => RDec::Ok { class: p[1].clone(), value: serde_json::from_str(&p[2]).unwrap_or(Value::Null), reser: if p[3].starts_with("EXC:") { Err(p[3].clone()) } else { Ok(unhex(&p[3])) }, size: Err("-".into()) },
                Some("ERR") if p.len() >= 3 => RDec::Err { class: p[1].clone(), proper: p[2] == "1", msg: String::new() },
                _ => RDec::Crash(format!("protocol: {:?}", p)),
            },
        }
    }
    fn enc(&mut self, di: usize, ty: &str, v: &Value) -> REnc {
        match self.pipe.call(&["E", &di.to_string(), ty, &v.to_string()]) {
            Err(e) => REnc::Crash(e),
            Ok(p) => match p.first().map(|s| s.as_str()) {
                Some("OK") if p.len() >= 3 => REnc::Ok { bytes: unhex(&p[1]), size: p[2].parse::<u64>().map_err(|_| p[2].clone()) },
                Some("ERR") if p.len() >= 2 => REnc::Err { class: p[1].clone(), msg: String::new() },
                _ => REnc::Crash(format!("protocol: {:?}", p)),
            },
        }
    }
    fn restart(&mut self) -> Result<(), String> {
        self.pipe = Self::spawn(&self.exe, &self.batch)?;
        Ok(())
    }
}

// ------------------------------------------------------------------------------------- Java

pub struct JavaTarget {
    pub classpath: std::path::PathBuf,
    pipe: Pipe,
}

impl JavaTarget {
    pub fn new(classpath: &std::path::Path) -> Result<JavaTarget, String> {
        Ok(JavaTarget { classpath: classpath.to_path_buf(), pipe: Self::spawn(classpath)? })
    }
    fn spawn(cp: &std::path::Path) -> Result<Pipe, String> {
        let mut c = Command::new("java");
        c.arg("-Xss64m").arg("-Xmx1g").arg("-XX:+UseSerialGC").arg("-cp").arg(cp).arg("Driver");
        Pipe::spawn(c)
    }
}

impl Target for JavaTarget {
    fn dec(&mut self, di: usize, ty: &str, _root: &str, b: &[u8]) -> RDec {
        match self.pipe.call(&["D", &format!("p{di}"), &java_class_name(ty), &hex(b)]) {
            Err(e) => RDec::Crash(e),
            Ok(p) => match p.first().map(|s| s.as_str()) {
                Some("OK") if p.len() >= 4 => RDec::Ok {
                    class: p[1].clone(),
                    value: serde_json::from_str(&p[2]).unwrap_or(Value::Null),
                    reser: if p[3].starts_with("EXC:") { Err(p[3].clone()) } else { Ok(unhex(&p[3])) },
                    size: Err("-".into()),
                },
                Some("ERR") if p.len() >= 3 => {
                    if p[1].starts_with("driver:") {
                        RDec::Crash(format!("{} {}", p[1], p.get(3).cloned().unwrap_or_default()))
                    } else {
                        RDec::Err { class: p[1].clone(), proper: true, msg: p.get(3).cloned().unwrap_or_default() }
                    }
                }
                _ => RDec::Crash(format!("protocol: {:?}", p)),
            },
        }
    }
    fn enc(&mut self, di: usize, ty: &str, v: &Value) -> REnc {
        match self.pipe.call(&["E", &format!("p{di}"), &java_class_name(ty), &v.to_string()]) {
            Err(e) => REnc::Crash(e),
            Ok(p) => match p.first().map(|s| s.as_str()) {
                Some("OK") if p.len() >= 2 => REnc::Ok { bytes: unhex(&p[1]), size: Err("-".into()) },
                Some("ERR") if p.len() >= 2 => REnc::Err { class: p[1].clone(), msg: p.get(3).cloned().unwrap_or_default() },
                _ => REnc::Crash(format!("protocol: {:?}", p)),
            },
        }
    }
    fn restart(&mut self) -> Result<(), String> {
        self.pipe = Self::spawn(&self.classpath)?;
        Ok(())
    }
}

// ------------------------------------------------------------------------------------- oracles

#[derive(Clone, Debug)]
pub struct RFail {
    pub op: String,
    pub outcome: String,
    pub detail: String,
}

fn rf(op: &str, outcome: impl Into<String>, detail: impl Into<String>) -> RFail {
    RFail { op: op.into(), outcome: outcome.into(), detail: detail.into() }
}

/// every key of the reference value is present with an equal value (the target may expose more,
/// e.g. constrained fields)
pub fn sub_match(reference: &Value, got: &Value) -> bool {
    match (reference, got) {
        (Value::Object(a), Value::Object(b)) => a.iter().all(|(k, v)| b.get(k).map(|g| sub_match(v, g)).unwrap_or(false)),
        (Value::Array(a), Value::Array(b)) => a.len() == b.len() && a.iter().zip(b).all(|(x, y)| sub_match(x, y)),
        _ => reference == got,
    }
}

#[derive(Clone, Copy, PartialEq, Eq, Debug)]
pub enum Backend {
    Python,
    Java,
    Cxx,
}

pub struct RResult {
    pub fails: Vec<RFail>,
    pub nontrivial: bool,
    pub outcome: String,
    pub events: Events,
}

/// decode-side oracle
pub fn check_dec(be: Backend, r: &Ref, ty: &str, b: &[u8], single_fault: bool, got: &RDec) -> RResult {
    let mut res = RResult { fails: vec![], nontrivial: false, outcome: String::new(), events: Events::new() };
    let chain = r.d.chain(ty).unwrap_or_default();
    let root = chain.first().cloned().unwrap_or(ty.to_string());
    // what was asked: Python parses the root ancestor, the others the type itself
    let asked = if be == Backend::Python { root.clone() } else { ty.to_string() };
    let mut ev = Events::new();
    let ref_asked = r.decode(&asked, b, true, &mut ev);
    res.events = ev;
    match got {
        RDec::Crash(m) => {
            // C++: two builds printing different lines is told apart from a process that died
            let kind = crash_kind(m);
            res.fails.push(rf("decode", &kind, m.clone()));
            res.outcome = "crash".into();
        }
        RDec::Err { class, .. } if class == "NoDeclaredFromBytes" => {
            // Java: an intermediate abstract class declares no fromBytes(byte[]) of its own
            res.outcome = "skipped:no-fromBytes-declared".into();
        }
        RDec::Err { class, proper, msg } => {
            match &ref_asked {
                Ok((rv, _)) => {
                    // Java parents dispatch eagerly: when a child's constraints match but the payload does not parse
                    // as that child, throwing is "rejecting what the reference rejects" (as that child)
                    let excused = be == Backend::Java && java_matching_child_malformed(r, &asked, rv, b);
                    if excused {
                        res.outcome = format!("reject:matching-child-malformed:{class}");
                        res.nontrivial = true;
                        return res;
                    }
                    res.fails.push(rf("decode", format!("rejects-where-R-accepts:{class}"), format!("reference value {rv}; {msg}")))
                }
                Err(k) => {
                    if !proper {
                        res.fails.push(rf("decode", format!("improper-error:{class}"), format!("reference rejects with {k:?}; target raised {class}: {msg}")));
                    }
                    // which DecodeError subclass is raised is not part of the statement (the generated
                    // parsers validate lengths of several chunks at once, before fixed values)
                    let _ = single_fault;
                    res.nontrivial = *k != DecErr::Length;
                }
            }
            res.outcome = format!("reject:{class}");
        }
        RDec::Ok { class, value, reser, size } => {
            res.nontrivial = true;
            res.outcome = "accept".into();
            // the returned class: the asked type or one of its descendants (Java: or the Unknown<Parent> fallback)
            let mut cls = class.clone();
            if be == Backend::Java {
                // Java class names are the UpperCamelCase of the identifiers; Unknown<X> is the fallback
                // child of X, i.e. an X whose payload matched no child
                let ids = r.d.record_ids();
                if let Some(id) = ids.iter().find(|id| java_class_name(id) == cls) {
                    cls = id.clone();
                } else if let Some(id) = cls.strip_prefix("Unknown").and_then(|rest| ids.iter().find(|id| java_class_name(id) == rest)) {
                    cls = id.clone();
                }
            }
            let class = if be == Backend::Java && class.starts_with("Unknown") && &cls != class { class.clone() } else { cls.clone() };
            let class = &class;
            let allowed = cls == asked || r.d.descendants_of(&asked).contains(&cls);
            if !allowed {
                res.fails.push(rf("decode", "returns-unrelated-class", format!("asked {asked}, got {class}")));
                return res;
            }
            let mut e2 = Events::new();
            let as_cls = r.decode(&cls, b, true, &mut e2);
            res.events.extend(e2);
            match as_cls {
                Err(k) => {
                    if ref_asked.is_err() {
                        res.fails.push(rf("decode", format!("accepts-where-R-rejects:{}", k.rust_name()), format!("as {class}: {value}")));
                    } else {
                        res.fails.push(rf("decode", format!("specialises-to-class-R-rejects:{}", k.rust_name()), format!("asked {asked}, returned {class}: {value}")));
                    }
                }
                Ok((rv, _)) => {
                    if !sub_match(&rv, value) {
                        res.fails.push(rf("decode", "value-differs", format!("as {class}: reference {rv} target {value}")));
                    }
                    // most derived: no child of the returned class is accepted by the reference
                    if be == Backend::Java && class == &cls {
                        for ch in r.d.children_of(&cls) {
                            let mut e3 = Events::new();
                            if r.decode(&ch, b, true, &mut e3).is_ok() && child_is_discriminated(r, &cls, &ch) {
                                res.fails.push(rf("decode", "not-most-derived", format!("returned {class} but {ch} also parses")));
                                break;
                            }
                        }
                    }
                    match (r.encode(&cls, &rv), reser) {
                        _ if be == Backend::Cxx => {} // views do not re-serialize
                        (Ok(e), Ok(bytes)) => {
                            if &e.bytes != bytes {
                                res.fails.push(rf("serialize", "re-encoding-differs", format!("canonical {} got {}", hex(&e.bytes), hex(bytes))));
                            }
                            if let Ok(n) = size {
                                // size property: promised for root packets and structs
                                if r.d.chain(&cls).map(|c| c.len() == 1).unwrap_or(false) && *n != bytes.len() as u64 && be == Backend::Python {
                                    res.fails.push(rf("size", "size-differs-from-serialized-length", format!("size {n}, serialized {}", bytes.len())));
                                }
                            }
                        }
                        (Ok(_), Err(x)) => res.fails.push(rf("serialize", format!("re-encoding-fails:{x}"), String::new())),
                        _ => {}
                    }
                }
            }
        }
    }
    res
}

/// a child without any constraint (alias) under a parent: backends differ legitimately on whether
/// they specialise to it (same ambiguity as DESIGN C06-L)
fn child_is_discriminated(r: &Ref, parent: &str, child: &str) -> bool {
    let pf = r.flat(parent);
    let cf = r.flat(child);
    cf.cons.keys().any(|k| !pf.cons.contains_key(k))
}

/// encode-side oracle: `got` is the serialization of the in-range value `v`, `back` the target's
/// own decoding of those octets
pub fn check_enc(be: Backend, r: &Ref, ty: &str, v: &Value, got: &REnc, back: Option<&RDec>) -> RResult {
    let mut res = RResult { fails: vec![], nontrivial: false, outcome: String::new(), events: Events::new() };
    let (re, ev) = r.encode_events(ty, v);
    res.events = ev;
    let Ok(e) = re else { return res };
    match got {
        REnc::Crash(m) => res.fails.push(rf("serialize", "crash", m.clone())),
        REnc::Err { class, msg } => res.fails.push(rf("serialize", format!("fails-on-in-range-value:{class}"), msg.clone())),
        REnc::Ok { bytes, size } => {
            if bytes != &e.bytes {
                res.fails.push(rf("serialize", "bytes-differ", format!("reference {} target {}", hex(&e.bytes), hex(bytes))));
            }
            if let (Ok(n), Backend::Python) = (size, be) {
                if r.d.chain(ty).map(|c| c.len() == 1).unwrap_or(false) && *n != bytes.len() as u64 {
                    res.fails.push(rf("size", "size-differs-from-serialized-length", format!("size {n}, serialized {}", bytes.len())));
                }
            }
            if let (Err(x), Backend::Cxx) = (size, be) {
                res.fails.push(rf("GetSize", "size-differs-from-serialized-length", x.clone()));
            }
            res.nontrivial = e.bytes.len() >= 2;
            res.outcome = "ok".into();
            // read back by the same backend (meaningful only when the octets are the reference's)
            let back = if bytes == &e.bytes { back } else { None };
            match back {
                Some(RDec::Ok { value, class, .. }) => {
                    // a parent value whose payload happens to parse as a child comes back as that child: not comparable.
                    // Shapes that are not round-trippable (e.g. a padded array without size field) come back as
                    // the reference decoder reads them; v itself is demanded when the reference round-trips.
                    let mut e2 = Events::new();
                    if let (true, Ok((rv, _))) = (class == ty || (be == Backend::Java && class == &java_class_name(ty)), r.decode(ty, &e.bytes, true, &mut e2)) {
                        if !sub_match(&rv, value) {
                            res.fails.push(rf("parse(serialize(v))", "round-trip-differs", format!("{v} -> {value}, reference reads {rv}")));
                        }
                    }
                }
                Some(RDec::Err { class, .. }) if class == "NoDeclaredFromBytes" => {}
                Some(RDec::Err { class, msg, .. }) => {
                    // only a violation when the reference itself round-trips
                    let mut e2 = Events::new();
                    let excused = be == Backend::Java && java_matching_child_malformed(r, ty, v, &e.bytes);
                    if !excused && r.decode(ty, &e.bytes, true, &mut e2).map(|x| sub_match(v, &x.0)).unwrap_or(false) {
                        res.fails.push(rf("parse(serialize(v))", format!("round-trip-fails:{class}"), msg.clone()));
                    }
                }
                Some(RDec::Crash(m)) => res.fails.push(rf("parse(serialize(v))", "crash", m.clone())),
                None => {}
            }
        }
    }
    res
}

// ------------------------------------------------------------------------------------- loop

pub struct RemoteDesc {
    pub idx: usize,
    pub desc: Desc,
    pub text: String,
    pub strata: Vec<String>,
}

/// Run decode / encode cases for every record type of every description.
/// `mk` creates one target per worker.
/// Java parents dispatch eagerly: true when a descendant's constraints match the parent-level value `rv`
/// but the octets do not parse as that descendant.
pub fn java_matching_child_malformed(r: &Ref, asked: &str, rv: &Value, b: &[u8]) -> bool {
    let mut nodes = r.d.descendants_of(asked);
    nodes.retain(|x| {
        let xf = r.flat(x);
        let af = r.flat(asked);
        xf.cons.iter().filter(|(k, _)| !af.cons.contains_key(*k)).all(|(k, v)| rv.get(k).map(|g| g.as_u64() == Some(*v)).unwrap_or(true))
    });
    nodes.iter().any(|x| {
        let mut e3 = Events::new();
        r.decode(x, b, true, &mut e3).is_err()
    })
}

/// Outcome class of a target that did not answer: what killed it, as far as the message tells.
pub fn crash_kind(m: &str) -> String {
    if m.starts_with("sanitizer build and NDEBUG build disagree") {
        "crash:builds-disagree".into()
    } else if m.contains("division by zero") {
        "crash:division-by-zero".into()
    } else if m.contains("Assertion `") {
        "crash:assertion".into()
    } else {
        "crash".into()
    }
}

/// The class name the Java backend gives a declaration (backends/java/mod.rs, Class::name_from_id).
pub fn java_class_name(id: &str) -> String {
    use heck::ToUpperCamelCase;
    if id.ends_with('_') {
        format!("{}_", id.to_upper_camel_case())
    } else {
        id.to_upper_camel_case()
    }
}

pub fn run_remote<T: Target>(prop: &str, be: Backend, seed: u64, cases: (u32, u32), descs: &[RemoteDesc], kf: &Kf, workers: usize, mk: &(dyn Fn(usize) -> Result<T, String> + Sync)) -> Result<Partial, Infra> {
    let parts: Vec<Result<Partial, String>> = std::thread::scope(|sc| {
        let mut hs = vec![];
        for w in 0..workers {
            let prop = prop.to_string();
            hs.push(sc.spawn(move || -> Result<Partial, String> {
                let mut acc = Acc::new(&prop);
                let mut target = mk(w)?;
                for rd in descs.iter().filter(|d| d.idx % workers == w) {
                    let r = Ref::new(&rd.desc);
                    acc.p.programs += 1;
                    for s in &rd.strata {
                        *acc.p.strata.entry(s.clone()).or_default() += 1;
                    }
                    for ty in rd.desc.record_ids() {
                        acc.p.types += 1;
                        let chain = rd.desc.chain(&ty).unwrap_or_default();
                        let root = chain.first().cloned().unwrap_or(ty.clone());
                        // feature tags of the whole family: the target may specialise to any descendant of the root
                        let mut tags = type_tags(&r, &ty);
                        tags.extend(type_tags(&r, &root));
                        for dsc in rd.desc.descendants_of(&root) {
                            tags.extend(type_tags(&r, &dsc));
                        }
                        let dtags = pdlv_core::dtags::desc_tags(&rd.desc);
                        for (kind, cases) in [("dec", cases.0), ("enc", cases.1)] {
                            let tag = format!("{prop}/{}/{}/{kind}", rd.idx, ty);
                            let failed = std::cell::Cell::new(false);
                            let tcell = std::cell::RefCell::new(&mut target);
                            let acell = std::cell::RefCell::new(&mut acc);
                            let mut eval = |st: &[u32], record: bool| -> Result<(), (String, Value)> {
                                let mut s = Src::new(st);
                                let case = if kind == "dec" { gen_case("C04", &r, &ty, &mut s) } else { gen_case("C03", &r, &ty, &mut s) };
                                let mut acc = acell.borrow_mut();
                                let Some(case) = case else {
                                    if !record {
                                        acc.skip("no-encodable-value");
                                    }
                                    return Ok(());
                                };
                                let mut t = tcell.borrow_mut();
                                let (res, input_json) = match &case.input {
                                    Input::Bytes(b) => {
                                        let got = t.dec(rd.idx, &ty, &root, b);
                                        if matches!(got, RDec::Crash(_)) {
                                            let _ = t.restart();
                                        }
                                        (check_dec(be, &r, &ty, b, case.single_fault, &got), json!({"hex": hex(b)}))
                                    }
                                    Input::Value(v) => {
                                        let got = t.enc(rd.idx, &ty, v);
                                        let back = match &got {
                                            REnc::Ok { bytes, .. } => Some(t.dec(rd.idx, &ty, &root, bytes)),
                                            REnc::Crash(_) => {
                                                let _ = t.restart();
                                                None
                                            }
                                            _ => None,
                                        };
                                        (check_enc(be, &r, &ty, v, &got, back.as_ref()), json!({"json": v}))
                                    }
                                    _ => return Ok(()),
                                };
                                acc.frozen = failed.get() || record;
                                acc.eval(&format!("{kind}:{}", case.label), &res.outcome);
                                if res.nontrivial {
                                    acc.nontrivial(fnv(&[tag.as_bytes(), input_json.to_string().as_bytes()]), || json!({"description": rd.text, "type": ty, "input": input_json, "class": case.label, "outcome": res.outcome}));
                                }
                                let mut all: BTreeSet<String> = tags.clone();
                                all.extend(dtags.iter().cloned());
                                all.extend(res.events.iter().map(|e| format!("event:{e}")));
                                for f in &res.fails {
                                    match kf.matches(&prop, &f.op, &f.outcome, &all) {
                                        Some(k) => acc.known(&k.id),
                                        None => {
                                            failed.set(true);
                                            return Err((
                                                format!("{}: {} {}", f.op, f.outcome, f.detail),
                                                json!({"property": prop, "seed": seed, "backend": format!("{be:?}"), "pdl": rd.text, "model": rd.desc, "type": ty, "op": f.op, "input": input_json, "class": case.label,
                                                    "observed": f.outcome, "detail": f.detail, "tags": all.iter().cloned().collect::<Vec<_>>(), "signature": format!("{prop}|{}|{}", f.op, f.outcome)}),
                                            ));
                                        }
                                    }
                                }
                                Ok(())
                            };
                            let baked = if kind == "enc" { tcell.borrow().baked_values(rd.idx, &ty) } else { None };
                            if let Some(list) = baked {
                                // fixed list of compiled-in values: no generation, no shrinking
                                let mut first: Option<Value> = None;
                                for v in list {
                                    let mut acc = acell.borrow_mut();
                                    let mut t = tcell.borrow_mut();
                                    let got = t.enc(rd.idx, &ty, &v);
                                    let back = match &got {
                                        REnc::Ok { bytes, .. } => Some(t.dec(rd.idx, &ty, &root, bytes)),
                                        REnc::Crash(_) => {
                                            let _ = t.restart();
                                            None
                                        }
                                        _ => None,
                                    };
                                    let res = check_enc(be, &r, &ty, &v, &got, back.as_ref());
                                    acc.eval("enc:baked-value", &res.outcome);
                                    let ij = json!({"json": v});
                                    if res.nontrivial {
                                        acc.nontrivial(fnv(&[tag.as_bytes(), ij.to_string().as_bytes()]), || json!({"description": rd.text, "type": ty, "input": ij, "class": "baked-value", "outcome": res.outcome}));
                                    }
                                    let mut all: BTreeSet<String> = tags.clone();
                                    all.extend(dtags.iter().cloned());
                                    all.extend(res.events.iter().map(|e| format!("event:{e}")));
                                    for f in &res.fails {
                                        match kf.matches(&prop, &f.op, &f.outcome, &all) {
                                            Some(k) => acc.known(&k.id),
                                            None => {
                                                if first.is_none() {
                                                    first = Some(json!({"property": prop, "seed": seed, "backend": format!("{be:?}"), "pdl": rd.text, "model": rd.desc, "type": ty, "op": f.op, "input": ij, "class": "baked-value",
                                                        "observed": f.outcome, "detail": f.detail, "tags": all.iter().cloned().collect::<Vec<_>>(), "signature": format!("{prop}|{}|{}", f.op, f.outcome)}));
                                                }
                                            }
                                        }
                                    }
                                }
                                drop(eval);
                                if let Some(rec) = first {
                                    acc.p.violations.push(rec);
                                }
                                continue;
                            }
                            let failure = run_streams(seed, &tag, cases, 400, |st| eval(st, false).map_err(|e| e.0));
                            if let Some(f) = failure {
                                let rec = match eval(&f.stream, true) {
                                    Err((_, rec)) => rec,
                                    Ok(()) => json!({"property": prop, "pdl": rd.text, "type": ty, "observed": f.message, "note": "not reproduced from the minimal stream"}),
                                };
                                drop(eval);
                                acc.frozen = false;
                                acc.p.violations.push(rec);
                            } else {
                                drop(eval);
                                acc.frozen = false;
                            }
                        }
                    }
                }
                Ok(acc.p)
            }));
        }
        hs.into_iter().map(|h| h.join().unwrap_or_else(|_| Err("worker panicked".into()))).collect()
    });
    let mut m = Partial { property: prop.into(), ..Default::default() };
    for p in parts {
        match p {
            Ok(p) => m.merge(p),
            Err(e) => return Err(Infra(e)),
        }
    }
    let _ = work_dir();
    Ok(m)
}

/// Re-execute one recorded case against a target (committed findings, replay files).
pub fn replay_one<T: Target>(be: Backend, target: &mut T, rd: &RemoteDesc, rec: &Value) -> (Vec<RFail>, BTreeSet<String>) {
    let r = Ref::new(&rd.desc);
    let ty = rec["type"].as_str().unwrap_or("").to_string();
    let chain = rd.desc.chain(&ty).unwrap_or_default();
    let root = chain.first().cloned().unwrap_or(ty.clone());
    let mut all = type_tags(&r, &ty);
    all.extend(pdlv_core::dtags::desc_tags(&rd.desc));
    let label = rec["class"].as_str().unwrap_or("");
    let res = if let Some(h) = rec["input"]["hex"].as_str() {
        let b = unhex(h);
        let got = target.dec(rd.idx, &ty, &root, &b);
        check_dec(be, &r, &ty, &b, label == "prefix" || label == "ext", &got)
    } else {
        let v = rec["input"]["json"].clone();
        let got = target.enc(rd.idx, &ty, &v);
        let back = match &got {
            REnc::Ok { bytes, .. } => Some(target.dec(rd.idx, &ty, &root, bytes)),
            _ => None,
        };
        check_enc(be, &r, &ty, &v, &got, back.as_ref())
    };
    all.extend(res.events.iter().map(|e| format!("event:{e}")));
    (res.fails, all)
}

//! C14 - C++ backend: conformance and sanitizer-clean validation of arbitrary bytes.
use crate::compile::*;
use crate::cxxharness::*;
use crate::remote::*;
use crate::report::*;
use crate::rustharness::{load_kf, work_dir};
use pdlv_core::choice::{draw_streams, Src};
use pdlv_core::gen::*;
use pdlv_core::refcodec::Ref;
use pdlv_core::values::gen_encodable;
use serde_json::{json, Value};
use std::collections::BTreeMap;

pub fn prepare(seed: u64, tier: &str, tag: &str, pairs: usize, per_type: usize, dir: &std::path::Path) -> (Vec<RemoteDesc>, CxxBuilt, usize) {
    let (mut descs, mut dropped) = crate::c13::draw(seed, tier, &Profile::cxx(), tag, pairs);
    if tag == "C14" {
        crate::rustharness::append_corpus(&mut descs, "cxx");
    }
    let mut headers = BTreeMap::new();
    let mut baked: BTreeMap<usize, BTreeMap<String, Vec<Value>>> = BTreeMap::new();
    for rd in &descs {
        let Ok((f, db)) = parse(&format!("h{}.pdl", rd.idx), &rd.text) else { continue };
        let Ok(Ok(af)) = guarded(|| analyze(&f)) else { continue };
        match guarded(|| pdl_compiler::backends::cxx::generate(&db, &af, Some("ns"), &[], &[], &[])) {
            Ok(h) => {
                headers.insert(rd.idx, h);
            }
            Err(_) => {
                dropped += 1;
                continue;
            }
        }
        // LE/BE twins (consecutive indices) get the same values
        let r = Ref::new(&rd.desc);
        let mut m = BTreeMap::new();
        for ty in rd.desc.record_ids() {
            let mut vals: Vec<Value> = vec![];
            for st in draw_streams(seed, &format!("{tag}/values/{}/{ty}", rd.idx / 2), per_type, 300) {
                let mut s = Src::new(&st);
                if let Some((v, _)) = gen_encodable(&r, &ty, &mut s) {
                    if !vals.contains(&v) {
                        vals.push(v);
                    }
                }
            }
            m.insert(ty, vals);
        }
        baked.insert(rd.idx, m);
    }
    let built = build_all(dir, &descs, baked, &headers);
    let descs: Vec<RemoteDesc> = descs.into_iter().filter(|d| built.exes.contains_key(&d.idx)).collect();
    (descs, built, dropped)
}

pub fn run(tier: &str, seed: u64) -> i32 {
    let t0 = std::time::Instant::now();
    let (kf, _) = load_kf();
    let thorough = tier == "thorough";
    std::panic::set_hook(Box::new(|_| {}));
    let dir = work_dir().join(format!("cxx-{tier}-{seed}"));
    let (descs, built, dropped) = prepare(seed, tier, "C14", if thorough { 64 } else { 8 }, if thorough { 120 } else { 60 }, &dir);
    let partial = match run_remote("C14", Backend::Cxx, seed, if thorough { (4000, 0) } else { (600, 0) }, &descs, &kf, 8, &|_w| Ok(CxxTarget::new(&built))) {
        Ok(p) => p,
        Err(e) => {
            eprintln!("infrastructure: {}", e.0);
            return 2;
        }
    };
    // committed replays of known findings
    let mut known_reproduced = vec![];
    for f in kf.for_property("C14") {
        let Ok(t) = std::fs::read_to_string(format!("{VERIF}/{}", f.replay)) else { continue };
        let Ok(rec) = serde_json::from_str::<Value>(&t) else { continue };
        let Ok(d) = serde_json::from_value::<pdlv_core::model::Desc>(rec["model"].clone()) else { continue };
        let text = pdlv_core::print::plain(&d);
        let rd = RemoteDesc { idx: 0, desc: d, text: text.clone(), strata: vec![] };
        let Ok((pf, db)) = parse("h0.pdl", &text) else { continue };
        let Ok(Ok(af)) = guarded(|| analyze(&pf)) else { continue };
        let Ok(h) = guarded(|| pdl_compiler::backends::cxx::generate(&db, &af, Some("ns"), &[], &[], &[])) else { continue };
        let mut headers = BTreeMap::new();
        headers.insert(0usize, h);
        let mut baked: BTreeMap<usize, BTreeMap<String, Vec<Value>>> = BTreeMap::new();
        if !rec["input"]["json"].is_null() {
            let mut m = BTreeMap::new();
            m.insert(rec["type"].as_str().unwrap_or("").to_string(), vec![rec["input"]["json"].clone()]);
            baked.insert(0, m);
        }
        let fdir = work_dir().join(format!("cxx-finding-{}", f.id));
        let b1 = build_all(&fdir, std::slice::from_ref(&rd), baked, &headers);
        if b1.exes.contains_key(&0) {
            let mut t = CxxTarget::new(&b1);
            let (fails, tags) = replay_one(Backend::Cxx, &mut t, &rd, &rec);
            if fails.iter().any(|x| kf.matches("C14", &x.op, &x.outcome, &tags).map(|k| k.id == f.id).unwrap_or(false)) && !known_reproduced.contains(&f.id) {
                known_reproduced.push(f.id.clone());
            }
        }
        let _ = std::fs::remove_dir_all(&fdir);
    }
    let rejects = built.build_rejects.clone();
    let _ = std::fs::remove_dir_all(&dir);
    let v = Verdict {
        property: "C14".into(),
        tier: tier.into(),
        seed,
        partial,
        rule: "descriptions from the cxx profile (C++ backend's supported constructs minus the confirmed compile-time findings), both endiannesses; per description a generated driver, built twice (g++ -O1 with ASan+UBSan and asserts; -O1 -DNDEBUG). Byte strings as for C04 are handed at run time to View::Create (children through their parents' views) and S::Parse; in-range values are compiled in as builder calls. Oracle: reference model. IsValid() (Parse() and no left-over for structs) iff the reference accepts the octets; then every getter prints the reference field values; Builder::Serialize equals the reference encoding and GetSize() its length; parsing the serialized octets gives the values back; on every input both builds terminate normally, print the same line, and the sanitizers stay silent. Non-trivial: accepted inputs, rejections other than a plain length error, encodings >= 2 octets; distinct by (type, input).".into(),
        assumptions: vec!["g++ 12 with libasan/libubsan; a sanitizer report or abort is observed as the driver process dying and is reported with the failing input".into(), "the reference model is correct".into()],
        extra: json!({"dropped_descriptions": dropped, "descriptions": descs.len(), "build_rejects": rejects.iter().map(|r| r.1.clone()).collect::<Vec<_>>()}),
        wall_s: t0.elapsed().as_secs_f64(),
        known_reproduced,
    };
    finish(v, &kf)
}

/// Replay one recorded case against a freshly generated and compiled C++ driver.
pub fn replay_file(rec: &Value) -> Option<(Vec<RFail>, std::collections::BTreeSet<String>)> {
    let d = serde_json::from_value::<pdlv_core::model::Desc>(rec["model"].clone()).ok()?;
    let text = pdlv_core::print::plain(&d);
    let rd = RemoteDesc { idx: 0, desc: d, text: text.clone(), strata: vec![] };
    let (pf, db) = parse("h0.pdl", &text).ok()?;
    let af = guarded(|| analyze(&pf)).ok()?.ok()?;
    let h = guarded(|| pdl_compiler::backends::cxx::generate(&db, &af, Some("ns"), &[], &[], &[])).ok()?;
    let mut headers = BTreeMap::new();
    headers.insert(0usize, h);
    let mut baked: BTreeMap<usize, BTreeMap<String, Vec<Value>>> = BTreeMap::new();
    if !rec["input"]["json"].is_null() {
        let mut m = BTreeMap::new();
        m.insert(rec["type"].as_str().unwrap_or("").to_string(), vec![rec["input"]["json"].clone()]);
        baked.insert(0, m);
    }
    let fdir = work_dir().join(format!("cxx-replay-{}", std::process::id()));
    let b1 = build_all(&fdir, std::slice::from_ref(&rd), baked, &headers);
    let out = if b1.exes.contains_key(&0) {
        let mut t = CxxTarget::new(&b1);
        Some(replay_one(Backend::Cxx, &mut t, &rd, rec))
    } else {
        None
    };
    let _ = std::fs::remove_dir_all(&fdir);
    out
}

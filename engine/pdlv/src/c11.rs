//! C11 - compilation is a deterministic pure function of the source, on every front-end.
use crate::compile::*;
use crate::report::*;
use crate::rustharness::*;
use pdlv_core::choice::draw_streams;
use pdlv_core::evidence::{fnv, Acc};
use pdlv_core::gen::*;
use pdlv_core::harness::{Batch, BatchDesc};
use pdlv_core::model::*;
use pdlv_core::print::plain;
use serde_json::{json, Value};
use std::collections::BTreeMap;
use std::path::{Path, PathBuf};
use std::process::Command;

/// build /repo's pdlc (with the java feature) from the current working tree
fn build_pdlc() -> Result<PathBuf, String> {
    let target = work_dir().join("target-repo");
    let o = Command::new("cargo")
        .args(["build", "--offline", "-q", "--manifest-path", "/repo/pdl-compiler/Cargo.toml", "--features", "java", "--bin", "pdlc"])
        .env("CARGO_TARGET_DIR", &target)
        .env("CARGO_NET_OFFLINE", "true")
        .output()
        .map_err(|e| e.to_string())?;
    if !o.status.success() {
        return Err(String::from_utf8_lossy(&o.stderr).lines().rev().take(10).collect::<Vec<_>>().join("\n"));
    }
    Ok(target.join("debug/pdlc"))
}

fn pdlc(exe: &Path, args: &[&str], file: &Path, hashseed: u64) -> Result<Vec<u8>, String> {
    let o = Command::new(exe).args(args).arg(file).env("RUST_BACKTRACE", "0").env("PDLV_RUN", hashseed.to_string()).output().map_err(|e| e.to_string())?;
    if !o.status.success() {
        return Err(format!("pdlc {:?} failed: {}", args, String::from_utf8_lossy(&o.stderr).lines().last().unwrap_or("")));
    }
    Ok(o.stdout)
}

fn dir_digest(dir: &Path) -> BTreeMap<String, u64> {
    let mut m = BTreeMap::new();
    fn walk(base: &Path, d: &Path, m: &mut BTreeMap<String, u64>) {
        if let Ok(rd) = std::fs::read_dir(d) {
            for e in rd.flatten() {
                let p = e.path();
                if p.is_dir() {
                    walk(base, &p, m);
                } else if let Ok(b) = std::fs::read(&p) {
                    m.insert(p.strip_prefix(base).unwrap_or(&p).to_string_lossy().to_string(), fnv(&[&b]));
                }
            }
        }
    }
    walk(dir, dir, &mut m);
    m
}

/// top-level chunks of generated text: Rust items via syn, other languages by blank-line separated blocks
fn chunks(backend: &str, text: &str) -> Vec<String> {
    if backend == "rust" {
        match syn::parse_file(text) {
            Ok(f) => f.items.iter().map(|i| quote_item(i)).collect(),
            Err(_) => vec![text.to_string()],
        }
    } else {
        // a chunk starts at every top-level line (not indented, not empty, not a closing line) and runs
        // up to the next one; declarations may be emitted in another order, so chunks are compared as multisets
        let mut out = vec![];
        let mut cur = String::new();
        for l in text.lines() {
            let top = (!l.is_empty() && !l.starts_with(' ') && !l.starts_with('\t') && !l.starts_with('}') && !l.starts_with(')') && !l.starts_with("public:") && !l.starts_with("private:") && !l.starts_with("protected:")) || l.starts_with("}  //");
            // a decorator line stays with the declaration it decorates
            let after_decorator = cur.lines().last().map(|x| x.starts_with('@')).unwrap_or(false);
            if top && !after_decorator && !cur.trim().is_empty() {
                out.push(std::mem::take(&mut cur));
            }
            if !l.trim().is_empty() {
                cur.push_str(l);
                cur.push('\n');
            }
        }
        if !cur.trim().is_empty() {
            out.push(cur);
        }
        out
    }
}

/// `part` as `full` with line regions deleted: the deleted regions, or None if it is not one
#[allow(dead_code)]
fn deleted_regions(full: &str, part: &str) -> Option<Vec<Vec<String>>> {
    let f: Vec<&str> = full.lines().collect();
    let p: Vec<&str> = part.lines().collect();
    // longest common subsequence (lines), then check that p is entirely inside it
    let (n, m) = (f.len(), p.len());
    if n * m > 40_000_000 {
        return None;
    }
    let mut dp = vec![0u32; (n + 1) * (m + 1)];
    for i in (0..n).rev() {
        for j in (0..m).rev() {
            dp[i * (m + 1) + j] = if f[i] == p[j] { dp[(i + 1) * (m + 1) + j + 1] + 1 } else { dp[(i + 1) * (m + 1) + j].max(dp[i * (m + 1) + j + 1]) };
        }
    }
    if dp[0] as usize != m {
        return None;
    }
    let (mut i, mut j) = (0, 0);
    let mut regions: Vec<Vec<String>> = vec![];
    let mut cur: Vec<String> = vec![];
    while i < n {
        if j < m && f[i] == p[j] && dp[(i + 1) * (m + 1) + j + 1] + 1 == dp[i * (m + 1) + j] {
            if !cur.is_empty() {
                regions.push(std::mem::take(&mut cur));
            }
            i += 1;
            j += 1;
        } else {
            cur.push(f[i].to_string());
            i += 1;
        }
    }
    if !cur.is_empty() {
        regions.push(cur);
    }
    Some(regions)
}

fn quote_item(i: &syn::Item) -> String {
    use syn::__private::ToTokens;
    i.to_token_stream().to_string()
}

fn mentions(chunk: &str, id: &str) -> bool {
    // identifier-boundary match
    let b = chunk.as_bytes();
    let mut start = 0;
    while let Some(p) = chunk[start..].find(id) {
        let s = start + p;
        let e = s + id.len();
        let before = s == 0 || !(b[s - 1].is_ascii_alphanumeric() || b[s - 1] == b'_');
        let after = e >= b.len() || !(b[e].is_ascii_alphanumeric() || b[e] == b'_');
        if before && after {
            return true;
        }
        // generated names derived from the id (XChild, XBuilder, XView, IsValidX, XText)
        if before || after {
            return true;
        }
        start = e;
    }
    false
}

/// declarations that may be excluded without touching anything else: unreferenced, childless, parentless
fn excludable(d: &Desc) -> Vec<String> {
    let mut refd: Vec<String> = vec![];
    for decl in &d.decls {
        match decl {
            Decl::Record { parent, fields, .. } => {
                if let Some(p) = parent {
                    refd.push(p.clone());
                }
                collect_refs(fields, &mut refd);
            }
            Decl::Group { fields, .. } => collect_refs(fields, &mut refd),
            _ => {}
        }
    }
    d.decls
        .iter()
        .filter(|x| match x {
            Decl::Record { parent, .. } => parent.is_none(),
            Decl::Enum { .. } => true,
            _ => false,
        })
        .map(|x| x.id().to_string())
        .filter(|id| !refd.contains(id) && d.children_of(id).is_empty())
        .collect()
}

fn collect_refs(fields: &[Field], out: &mut Vec<String>) {
    for f in fields {
        match &f.d {
            FieldDesc::Typedef { ty, .. } | FieldDesc::FixedEnum { ty, .. } => out.push(ty.clone()),
            FieldDesc::Array { elem: Elem::Ty(t), .. } => out.push(t.clone()),
            FieldDesc::Group { id, .. } => out.push(id.clone()),
            _ => {}
        }
    }
}

pub fn run(tier: &str, seed: u64) -> i32 {
    let t0 = std::time::Instant::now();
    let (kf, kf_path) = load_kf();
    let thorough = tier == "thorough";
    std::panic::set_hook(Box::new(|_| {}));
    let mut acc = Acc::new("C11");
    let exe = match build_pdlc() {
        Ok(e) => e,
        Err(e) => {
            eprintln!("infrastructure: cannot build pdlc: {e}");
            return 2;
        }
    };
    let work = work_dir().join(format!("c11-{tier}-{seed}"));
    let _ = std::fs::remove_dir_all(&work);
    let _ = std::fs::create_dir_all(&work);
    let mut push = |acc: &mut Acc, op: &str, observed: &str, detail: String, text: &str| {
        acc.p.violations.push(json!({"property": "C11", "op": op, "observed": observed, "detail": detail, "pdl": text, "type": Value::Null, "signature": format!("C11|{op}|{observed}")}));
    };
    // ---- (a) repeated in-process generation
    let n_inproc = if thorough { 3000 } else { 300 };
    for (i, st) in draw_streams(seed, &format!("C11/inproc/{tier}"), n_inproc, 600).iter().enumerate() {
        let pname = ["rust", "python", "cxx", "java"][i % 4];
        let (d, _) = gen_desc(st, &Profile::by_name(pname), Some(i), i % 2 == 1);
        let text = plain(&d);
        let Ok((f, db)) = parse("c11.pdl", &text) else { continue };
        let Ok(Ok(af)) = guarded(|| analyze(&f)) else { continue };
        let gen_once = |k: usize| -> Result<String, String> {
            match pname {
                "rust" => guarded(|| pdl_compiler::backends::rust::generate(&db, &af, &[])),
                "python" => guarded(|| pdl_compiler::backends::python::generate(&db, &af, None, &[])),
                "cxx" => guarded(|| pdl_compiler::backends::cxx::generate(&db, &af, Some("ns"), &[], &[], &[])),
                _ => {
                    let dir = work.join(format!("jin-{i}-{k}"));
                    let r = guarded(|| pdl_compiler::backends::java::generate(&db, &af, &[], &dir, "p")).and_then(|r| r);
                    let dg = format!("{:?}", dir_digest(&dir));
                    let _ = std::fs::remove_dir_all(&dir);
                    r.map(|_| dg)
                }
            }
        };
        let first = gen_once(0);
        let json0 = guarded(|| pdl_compiler::backends::json::generate(&f)).and_then(|r| r);
        let mut same = true;
        for k in 1..5 {
            // a fresh analysis each time: new HashMap instances get new hash keys
            let again = match guarded(|| analyze(&f)) {
                Ok(Ok(af2)) => match pname {
                    "rust" => guarded(|| pdl_compiler::backends::rust::generate(&db, &af2, &[])),
                    "python" => guarded(|| pdl_compiler::backends::python::generate(&db, &af2, None, &[])),
                    "cxx" => guarded(|| pdl_compiler::backends::cxx::generate(&db, &af2, Some("ns"), &[], &[], &[])),
                    _ => gen_once(k),
                },
                _ => Err("re-analysis failed".into()),
            };
            if again != first {
                same = false;
                push(&mut acc, &format!("generate:{pname}"), "output-differs-between-runs-in-one-process", format!("run 0 vs run {k}"), &text);
                break;
            }
            if guarded(|| pdl_compiler::backends::json::generate(&f)).and_then(|r| r) != json0 {
                same = false;
                push(&mut acc, "generate:json", "output-differs-between-runs-in-one-process", String::new(), &text);
                break;
            }
        }
        acc.eval(&format!("in-process:{pname}"), if same { "5 runs identical" } else { "differs" });
        let children = d.decls.iter().filter(|x| matches!(x, Decl::Record { parent: Some(_), .. })).count();
        if children >= 2 {
            acc.nontrivial(fnv(&[b"inproc", text.as_bytes()]), || json!({"pdl": text, "relation": format!("in-process x5 ({pname})")}));
        }
    }
    // ---- (b) cross-process and (d) exclusion, through the pdlc binary
    let n_cli = if thorough { 400 } else { 48 };
    for (i, st) in draw_streams(seed, &format!("C11/cli/{tier}"), n_cli, 600).iter().enumerate() {
        let pname = ["rust", "python", "cxx", "java"][i % 4];
        let (d, _) = gen_desc(st, &Profile::by_name(pname), Some(i), i % 2 == 1);
        let text = plain(&d);
        let file = work.join(format!("c{i}.pdl"));
        let _ = std::fs::write(&file, &text);
        let run = |k: u64, extra: &[&str]| -> Result<Vec<u8>, String> {
            match pname {
                "java" => {
                    let dir = work.join(format!("jcli-{i}-{k}"));
                    let ds = dir.to_string_lossy().to_string();
                    let mut a = vec!["--output-format", "java", "--output-dir", &ds, "--java-package", "p"];
                    a.extend_from_slice(extra);
                    let r = pdlc(&exe, &a, &file, k);
                    let dg = format!("{:?}", dir_digest(&dir));
                    let _ = std::fs::remove_dir_all(&dir);
                    r.map(|_| dg.into_bytes())
                }
                "cxx" => {
                    let mut a = vec!["--output-format", "cxx", "--namespace", "ns"];
                    a.extend_from_slice(extra);
                    pdlc(&exe, &a, &file, k)
                }
                p => {
                    let mut a = vec!["--output-format", p];
                    a.extend_from_slice(extra);
                    pdlc(&exe, &a, &file, k)
                }
            }
        };
        let base = run(0, &[]);
        let mut same = true;
        for k in 1..4 {
            if run(k, &[]) != base {
                same = false;
                push(&mut acc, &format!("pdlc:{pname}"), "output-differs-between-processes", format!("process 0 vs process {k}"), &text);
                break;
            }
        }
        // library call vs CLI
        if let (Ok(b), Ok((f, db))) = (&base, parse(&file.to_string_lossy(), &text)) {
            if let Ok(Ok(af)) = guarded(|| analyze(&f)) {
                let lib = match pname {
                    "rust" => guarded(|| pdl_compiler::backends::rust::generate(&db, &af, &[])).ok(),
                    "python" => guarded(|| pdl_compiler::backends::python::generate(&db, &af, None, &[])).ok(),
                    "cxx" => guarded(|| pdl_compiler::backends::cxx::generate(&db, &af, Some("ns"), &[], &[], &[])).ok(),
                    _ => None,
                };
                if let Some(l) = lib {
                    if format!("{l}\n").as_bytes() != b.as_slice() {
                        same = false;
                        push(&mut acc, &format!("pdlc:{pname}"), "cli-output-differs-from-library-call", String::new(), &text);
                    }
                }
            }
        }
        acc.eval(&format!("cross-process:{pname}"), if same { "4 processes + library identical" } else { "differs" });
        acc.nontrivial(fnv(&[b"cli", text.as_bytes()]), || json!({"pdl": text, "relation": format!("pdlc x4 + library call ({pname})")}));
        // (d) exclusion of unrelated leaf declarations
        if pname != "java" {
            if let Ok(b) = &base {
                let full = String::from_utf8_lossy(b).to_string();
                let leafs = excludable(&d);
                let mut sets: Vec<Vec<String>> = leafs.iter().map(|l| vec![l.clone()]).collect();
                if leafs.len() >= 2 {
                    sets.push(leafs[..2].to_vec());
                }
                if leafs.len() >= 3 {
                    sets.push(leafs[..3].to_vec());
                }
                for set in sets.iter().take(6) {
                    let mut extra: Vec<&str> = vec![];
                    for l in set {
                        extra.push("--exclude-declaration");
                        extra.push(l);
                    }
                    match run(9, &extra) {
                        Ok(o) => {
                            let part = String::from_utf8_lossy(&o).to_string();
                            let (cf, cp) = (chunks(pname, &full), chunks(pname, &part));
                            // every chunk of the partial output occurs in the full output
                            let mut pool = cf.clone();
                            let mut ok = true;
                            for c in &cp {
                                match pool.iter().position(|x| x == c) {
                                    Some(k) => {
                                        pool.remove(k);
                                    }
                                    None => {
                                        // a block that lists declarations (e.g. C++ forward declarations): equal once the
                                        // lines that mention an excluded declaration are removed from the full output's block
                                        let strip = |x: &str| x.lines().filter(|ln| !set.iter().any(|l| mentions(ln, l))).collect::<Vec<_>>().join("\n");
                                        if let Some(k) = pool.iter().position(|x| strip(x) == strip(c)) {
                                            pool.remove(k);
                                            continue;
                                        }
                                        if !set.iter().any(|l| mentions(c, l)) {
                                            ok = false;
                                            push(&mut acc, &format!("exclude:{pname}"), "exclusion-changes-unrelated-code", format!("excluding {:?} changed: {}", set, c.chars().take(200).collect::<String>()), &text);
                                            break;
                                        }
                                    }
                                }
                            }
                            // what disappeared must belong to the excluded declarations
                            if ok {
                                for c in &pool {
                                    if !set.iter().any(|l| mentions(c, l)) {
                                        ok = false;
                                        push(&mut acc, &format!("exclude:{pname}"), "exclusion-removes-unrelated-code", format!("excluding {:?} removed: {}", set, c.chars().take(200).collect::<String>()), &text);
                                        break;
                                    }
                                }
                            }
                            acc.eval(&format!("exclude:{pname}:{}", set.len()), if ok { "unrelated code untouched" } else { "differs" });
                            acc.nontrivial(fnv(&[b"excl", text.as_bytes(), set.join(",").as_bytes()]), || json!({"pdl": text, "relation": format!("--exclude-declaration {:?} ({pname})", set)}));
                        }
                        Err(e) => {
                            // excluding an unreferenced declaration must not make compilation fail
                            push(&mut acc, &format!("exclude:{pname}"), "exclusion-breaks-compilation", e, &text);
                        }
                    }
                }
            }
        }
        let _ = std::fs::remove_file(&file);
    }
    // ---- (c) derive macro vs command-line tool, by behaviour
    let n_der = if thorough { 48 } else { 10 };
    let mut descs = vec![];
    let mut code = vec![];
    for (i, st) in draw_streams(seed, &format!("C11/derive/{tier}"), n_der, 600).iter().enumerate() {
        let (d, strata) = gen_desc(st, &Profile::rust(), Some(i * 3), i % 2 == 1);
        let text = plain(&d);
        let file = work.join(format!("d{i}.pdl"));
        let _ = std::fs::write(&file, &text);
        match pdlc(&exe, &["--output-format", "rust"], &file, 0) {
            Ok(o) => {
                let idx = descs.len();
                descs.push(BatchDesc { idx, desc: d, text, profile: "rust".into(), strata, twin: None, origin: "cli".into() });
                code.push(String::from_utf8_lossy(&o).to_string());
            }
            Err(e) => acc.p.notes.push(format!("pdlc failed on a rust-profile description: {e}")),
        }
    }
    let n = descs.len();
    for i in 0..n {
        let mut b = descs[i].clone();
        b.idx = n + i;
        b.origin = "derive".into();
        b.twin = Some(i);
        descs[i].twin = Some(n + i);
        descs.push(b);
        code.push(String::new());
    }
    let db = DrawnBatch { batch: Batch { seed, tier: tier.into(), descs }, code, dropped: vec![] };
    match build(&format!("c11-{tier}-{seed}"), db) {
        Ok(b) => match run_prop(&b, "C11", tier, seed, &kf_path) {
            Ok(p) => {
                let progs = acc.p.programs;
                acc.p.merge(p);
                acc.p.programs = progs;
            }
            Err(e) => {
                eprintln!("infrastructure: {}", e.0);
                return 2;
            }
        },
        Err(e) => {
            push(&mut acc, "derive", "derive-harness-does-not-build", e, "");
        }
    }
    let _ = std::fs::remove_dir_all(&work);
    acc.p.programs = (n_inproc + n_cli + n) as u64;
    let v = Verdict {
        property: "C11".into(),
        tier: tier.into(),
        seed,
        partial: acc.p,
        rule: "accepted descriptions from each backend's profile. (a) in one process: 5 generations per backend, each after a fresh analysis (fresh HashMap hash keys), give identical text (Java: identical file digests); (b) across processes: pdlc built from the working tree, run 4 times per description and backend, gives byte-identical output, equal to the library call's; (c) derive vs CLI: a harness crate holds, per description, the module produced by an attribute macro (#[pdl_inline(text)] and #[pdl(\"file\")] alternating) and the module included from pdlc's output, and every decode/encode report (values, octets, errors) on generated byte strings and values is compared; (d) exclusion: for unreferenced, parentless declarations (singletons, one pair, one triple) the chunks (syn items / top-level blocks) of the output with --exclude-declaration form a sub-multiset of the full output and everything that changed or disappeared mentions an excluded declaration. Non-trivial: descriptions with >= 2 children (a), every CLI and exclusion case, accepted derive-vs-CLI inputs; distinct by text and relation.".into(),
        assumptions: vec!["hash seeds differ between processes and between HashMap instances (std RandomState)".into()],
        extra: json!({"derive_pairs": n}),
        wall_s: t0.elapsed().as_secs_f64(),
        known_reproduced: vec![],
    };
    finish(v, &kf)
}

//! Generator smoke test: every generated description must be accepted by /repo's
//! parser and analyzer, and the Rust generator must not panic inside the profile.
use crate::compile::*;
use pdlv_core::choice::draw_streams;
use pdlv_core::gen::*;
use pdlv_core::print::plain;

pub fn run(args: &[String]) -> i32 {
    let profile = args.get(0).map(|s| s.as_str()).unwrap_or("rust");
    let n: usize = args.get(1).and_then(|s| s.parse().ok()).unwrap_or(200);
    let seed: u64 = args.get(2).and_then(|s| s.parse().ok()).unwrap_or(1);
    let show = args.get(3).is_some();
    let p = Profile::by_name(profile);
    let streams = draw_streams(seed, "smoke", n, 600);
    let (mut rejected, mut panics, mut ok) = (0, 0, 0);
    std::panic::set_hook(Box::new(|_| {}));
    let mut strata = std::collections::BTreeMap::new();
    for (i, st) in streams.iter().enumerate() {
        let (d, tags) = gen_desc(st, &p, Some(i), i % 2 == 1);
        for t in tags {
            *strata.entry(t).or_insert(0) += 1;
        }
        let text = plain(&d);
        if show {
            println!("---- {i}\n{text}");
        }
        match parse("g.pdl", &text) {
            Err(e) => {
                rejected += 1;
                println!("PARSE REJECT {i}: {e}\n{text}");
            }
            Ok((f, db)) => match guarded(|| analyze(&f)) {
                Err(p) => {
                    panics += 1;
                    println!("ANALYZER PANIC {i}: {p}\n{text}");
                }
                Ok(Err(diags)) => {
                    rejected += 1;
                    let mut buf = codespan_reporting::term::termcolor::Buffer::no_color();
                    let _ = diags.emit(&db, &mut buf);
                    println!("ANALYZER REJECT {i}:\n{}\n{text}", String::from_utf8_lossy(buf.as_slice()));
                }
                Ok(Ok(af)) => {
                    // model sanity: every record flattens
                    for id in d.record_ids() {
                        if let Err(e) = d.flat(&id) {
                            println!("MODEL ERROR {i} {id}: {}\n{text}", e.0);
                        }
                    }
                    match guarded(|| pdl_compiler::backends::rust::generate(&db, &af, &[])) {
                        Ok(_) => ok += 1,
                        Err(p) => {
                            panics += 1;
                            println!("RUST GENERATOR PANIC {i}: {p}\n{text}");
                        }
                    }
                }
            },
        }
    }
    println!("smoke {profile}: {ok} ok, {rejected} rejected, {panics} panics of {n}");
    for (k, v) in strata {
        println!("  {k}: {v}");
    }
    if rejected + panics > 0 {
        1
    } else {
        0
    }
}

//! C13 - Python backend: conformance, round trip, and only DecodeError on bad input.
use crate::compile::*;
use crate::remote::*;
use crate::report::*;
use crate::rustharness::{load_kf, work_dir};
use pdlv_core::choice::draw_streams;
use pdlv_core::gen::*;
use pdlv_core::print::plain;
use serde_json::json;

pub fn draw(seed: u64, tier: &str, profile: &Profile, tag: &str, pairs: usize) -> (Vec<RemoteDesc>, usize) {
    let streams = draw_streams(seed, &format!("{tag}/{tier}"), pairs, 600);
    let mut out = vec![];
    let mut dropped = 0;
    for (i, st) in streams.iter().enumerate() {
        let (d, strata) = gen_desc(st, profile, Some(i + seed as usize * 5), false);
        for big in [false, true] {
            let mut dd = d.clone();
            dd.big = big;
            let text = plain(&dd);
            match parse("m.pdl", &text).ok().and_then(|(f, _)| guarded(|| analyze(&f)).ok().and_then(|r| r.ok())) {
                Some(_) => out.push(RemoteDesc { idx: out.len(), desc: dd, text, strata: strata.clone() }),
                None => dropped += 1,
            }
        }
    }
    (out, dropped)
}

pub fn run(tier: &str, seed: u64) -> i32 {
    let t0 = std::time::Instant::now();
    let (kf, _) = load_kf();
    let thorough = tier == "thorough";
    std::panic::set_hook(Box::new(|_| {}));
    let (mut descs, mut dropped) = draw(seed, tier, &Profile::python(), "C13", if thorough { 160 } else { 24 });
    crate::rustharness::append_corpus(&mut descs, "python");
    let dir = work_dir().join(format!("py-{tier}-{seed}"));
    let _ = std::fs::remove_dir_all(&dir);
    let _ = std::fs::create_dir_all(&dir);
    descs.retain(|rd| {
        let Ok((f, db)) = parse(&format!("m{}.pdl", rd.idx), &rd.text) else { return false };
        let Ok(Ok(af)) = guarded(|| analyze(&f)) else { return false };
        match guarded(|| pdl_compiler::backends::python::generate(&db, &af, None, &[])) {
            Ok(code) => std::fs::write(dir.join(format!("m{}.py", rd.idx)), code).is_ok(),
            Err(_) => {
                dropped += 1;
                false
            }
        }
    });
    let partial = match run_remote("C13", Backend::Python, seed, if thorough { (4000, 1500) } else { (600, 200) }, &descs, &kf, 8, &|_w| PyTarget::new(&dir)) {
        Ok(p) => p,
        Err(e) => {
            eprintln!("infrastructure: {}", e.0);
            return 2;
        }
    };
    // committed replays of known findings
    let mut known_reproduced = vec![];
    for f in kf.for_property("C13") {
        let Ok(t) = std::fs::read_to_string(format!("{VERIF}/{}", f.replay)) else { continue };
        let Ok(rec) = serde_json::from_str::<serde_json::Value>(&t) else { continue };
        let Ok(d) = serde_json::from_value::<pdlv_core::model::Desc>(rec["model"].clone()) else { continue };
        let text = plain(&d);
        let rd = RemoteDesc { idx: 9000, desc: d, text: text.clone(), strata: vec![] };
        let Ok((pf, db)) = parse("m9000.pdl", &text) else { continue };
        let Ok(Ok(af)) = guarded(|| analyze(&pf)) else { continue };
        let Ok(code) = guarded(|| pdl_compiler::backends::python::generate(&db, &af, None, &[])) else { continue };
        let _ = std::fs::write(dir.join("m9000.py"), code);
        if let Ok(mut t) = PyTarget::new(&dir) {
            let (fails, tags) = replay_one(Backend::Python, &mut t, &rd, &rec);
            if fails.iter().any(|x| kf.matches("C13", &x.op, &x.outcome, &tags).map(|k| k.id == f.id).unwrap_or(false)) {
                known_reproduced.push(f.id.clone());
            }
        }
        let _ = std::fs::remove_file(dir.join("m9000.py"));
    }
    let _ = std::fs::remove_dir_all(&dir);
    let v = Verdict {
        property: "C13".into(),
        tier: tier.into(),
        seed,
        partial,
        rule: "descriptions from the python profile (no element-size, no custom fields), both endiannesses (LE/BE twins); per type byte strings (reference encodings, prefixes, extensions, targeted bit-field mutants, flips, chunk overwrites, random) parsed with parse_all on the root ancestor, and in-range values built from JSON by dataclass type hints and serialized. Oracle: reference model. Accepted input: the returned object's class is the root or a descendant, the reference accepts the octets as that class with the same field values, no discriminated child of that class also parses, serialize() of the object equals the canonical re-encoding, size == len(serialize()) for root packets and structs. Rejected input: the reference rejects too and the exception is a DecodeError subclass (same class name as the reference error kind for prefixes and extensions). Values: serialize(v) equals the reference encoding and parse_all(serialize(v)) has v's field values. Non-trivial: accepted inputs, rejections other than a plain length error, encodings of >= 2 octets; distinct by (type, input).".into(),
        assumptions: vec!["CPython 3.11; the driver converts JSON to objects by dataclass type hints like the repository's python_generator_test.py".into(), "the reference model is correct (calibrated on the canonical vectors)".into()],
        extra: json!({"dropped_descriptions": dropped, "descriptions": descs.len()}),
        wall_s: t0.elapsed().as_secs_f64(),
        known_reproduced,
    };
    finish(v, &kf)
}

/// Replay one recorded case against freshly generated Python code.
pub fn replay_file(rec: &serde_json::Value) -> Option<(Vec<RFail>, std::collections::BTreeSet<String>)> {
    let d = serde_json::from_value::<pdlv_core::model::Desc>(rec["model"].clone()).ok()?;
    let text = plain(&d);
    let rd = RemoteDesc { idx: 9000, desc: d, text: text.clone(), strata: vec![] };
    let (pf, db) = parse("m9000.pdl", &text).ok()?;
    let af = guarded(|| analyze(&pf)).ok()?.ok()?;
    let code = guarded(|| pdl_compiler::backends::python::generate(&db, &af, None, &[])).ok()?;
    let dir = work_dir().join(format!("py-replay-{}", std::process::id()));
    let _ = std::fs::create_dir_all(&dir);
    std::fs::write(dir.join("m9000.py"), code).ok()?;
    let out = PyTarget::new(&dir).ok().map(|mut t| replay_one(Backend::Python, &mut t, &rd, rec));
    let _ = std::fs::remove_dir_all(&dir);
    out
}

//! Evidence files, replay files, verdict lines and exit codes shared by all checks.
use pdlv_core::evidence::Partial;
use pdlv_core::kf::Kf;
use serde_json::{json, Value};

#[derive(Debug)]
pub struct Infra(pub String);

pub const VERIF: &str = "/verif";

pub struct Verdict {
    pub property: String,
    pub tier: String,
    pub seed: u64,
    pub partial: Partial,
    pub rule: String,
    pub assumptions: Vec<String>,
    pub extra: Value,
    pub wall_s: f64,
    /// ids of known findings whose committed replay still fails as listed
    pub known_reproduced: Vec<String>,
}

fn short_hash(s: &str) -> String {
    format!("{:012x}", pdlv_core::evidence::fnv(&[s.as_bytes()]) & 0xffff_ffff_ffff)
}

/// Write evidence, replay files; print KNOWN-FINDING / VIOLATION lines; return the exit code.
pub fn finish(v: Verdict, kf: &Kf) -> i32 {
    let p = &v.partial;
    let _ = std::fs::create_dir_all(format!("{VERIF}/evidence"));
    let _ = std::fs::create_dir_all(format!("{VERIF}/replays"));
    let mut replay_paths = vec![];
    // one replay per distinct signature
    let mut seen = std::collections::BTreeSet::new();
    for viol in &p.violations {
        let sig = viol.get("signature").and_then(|s| s.as_str()).unwrap_or("").to_string();
        let key = format!("{sig}|{}", viol.get("type").and_then(|s| s.as_str()).unwrap_or(""));
        if !seen.insert(key) {
            continue;
        }
        let mut rec = viol.clone();
        let path = format!("{VERIF}/replays/{}-{}.json", v.property, short_hash(&rec.to_string()));
        rec["how_to_run"] = json!(format!("./vcheck replay {path}"));
        let _ = std::fs::write(&path, serde_json::to_string_pretty(&rec).unwrap());
        replay_paths.push((path, rec));
    }
    let mut samples = p.samples.clone();
    if samples.is_empty() {
        samples.push(json!({"note": "no non-trivial case was produced"}));
    }
    let mut known_ids: std::collections::BTreeSet<String> = p.known.keys().cloned().collect();
    known_ids.extend(v.known_reproduced.iter().cloned());
    let mut coverage = json!({
        "evaluations": p.evaluations,
        "distinct_nontrivial": p.distinct,
        "rule": v.rule,
        "samples": samples,
        "programs": p.programs,
        "types": p.types,
        "input_classes": p.labels,
        "outcome_classes": p.outcomes,
        "strata": p.strata,
        "skipped": p.skipped,
        "excluded_by_known_finding": p.known,
        "known_findings_reproduced": known_ids.iter().cloned().collect::<Vec<_>>(),
        "exhaustive_subspaces": p.exhaustive_subspaces,
        "notes": p.notes,
    });
    if let (Some(c), Some(e)) = (coverage.as_object_mut(), v.extra.as_object()) {
        for (k, x) in e {
            c.insert(k.clone(), x.clone());
        }
    }
    let ev = json!({
        "property_id": v.property,
        "tier": v.tier,
        "seed": v.seed,
        "level": "exploration",
        "coverage": coverage,
        "assumptions": v.assumptions,
        "wall_s": v.wall_s,
        "violations": replay_paths.len(),
    });
    let _ = std::fs::write(format!("{VERIF}/evidence/{}.json", v.property), serde_json::to_string_pretty(&ev).unwrap());
    for id in &known_ids {
        // one line per finding id (a finding may be listed on several lines, one per outcome class)
        if let Some(f) = kf.findings.iter().find(|f| &f.id == id && f.property == v.property) {
            println!("KNOWN-FINDING: property={} {} [{}]", v.property, f.what, f.id);
        }
    }
    println!(
        "{} {} seed={}: {} evaluations, {} distinct non-trivial, {} programs, {} violations, {} known-trigger cases, {:.1}s",
        v.property,
        v.tier,
        v.seed,
        p.evaluations,
        p.distinct,
        p.programs,
        replay_paths.len(),
        p.known.values().sum::<u64>(),
        v.wall_s
    );
    if !replay_paths.is_empty() {
        for (path, rec) in &replay_paths {
            println!("  violation: type={} op={} observed={} detail={}", rec["type"], rec["op"], rec["observed"], rec["detail"].to_string().chars().take(300).collect::<String>());
            println!("VIOLATION property={} replay={}", v.property, path);
        }
        return 1;
    }
    if p.evaluations == 0 || p.distinct < 2 {
        eprintln!("inconclusive: nothing non-trivial was explored");
        return 2;
    }
    0
}

//! C++ harness: per description a generated `drv.cc` (printers and builder calls are emitted
//! from the model, C++ has no reflection); decode inputs arrive at run time, encode vectors are
//! baked in.  Built twice: ASan+UBSan with asserts, and -DNDEBUG.
use crate::remote::*;
use crate::report::VERIF;
use pdlv_core::model::*;
use pdlv_core::props::{hex, unhex};
use pdlv_core::refcodec::Ref;
use serde_json::Value;
use std::collections::BTreeMap;
use std::path::{Path, PathBuf};
use std::process::Command;

fn cap(id: &str) -> String {
    // heck::ToUpperCamelCase on the engine's identifiers (`f12`, `payload`) is capitalisation
    let mut c = id.chars();
    match c.next() {
        Some(f) => f.to_uppercase().collect::<String>() + c.as_str(),
        None => String::new(),
    }
}

fn scalar_ty(w: u32) -> &'static str {
    match w {
        0..=8 => "uint8_t",
        9..=16 => "uint16_t",
        17..=32 => "uint32_t",
        _ => "uint64_t",
    }
}

fn elem_cpp_ty(_d: &Desc, e: &Elem) -> String {
    match e {
        Elem::Bits(w) => scalar_ty(*w).to_string(),
        Elem::Ty(t) => t.clone(),
    }
}

/// C++ expression printing the value `x` of the given field as JSON
fn print_expr(d: &Desc, f: &FF, x: &str) -> String {
    match &f.k {
        FK::Scalar { .. } | FK::Enum { .. } | FK::Custom { .. } | FK::Flag { .. } => {
            if f.cond.is_some() {
                format!("(({x}).has_value() ? J((uint64_t)*({x})) : std::string(\"null\"))")
            } else {
                format!("J((uint64_t)({x}))")
            }
        }
        FK::Struct { ty, .. } => {
            if f.cond.is_some() {
                format!("(({x}).has_value() ? pr_{ty}(*({x})) : std::string(\"null\"))")
            } else {
                format!("pr_{ty}({x})")
            }
        }
        FK::Array { elem, .. } => match elem {
            Elem::Ty(t) if matches!(d.ty_kind(t), Some(TyKind::Struct)) => format!("JA({x}, [](auto const& e) {{ return pr_{t}(e); }})"),
            _ => format!("JA({x}, [](auto const& e) {{ return J((uint64_t)e); }})"),
        },
        _ => "std::string(\"null\")".into(),
    }
}

/// C++ expression constructing the JSON value `v` of field `f`
fn value_expr(d: &Desc, r: &Ref, f: &FF, v: &Value) -> String {
    let scalar = |w: u32, v: &Value| format!("({}){}ULL", scalar_ty(w), v.as_u64().unwrap_or(0));
    let elem_expr = |e: &Elem, v: &Value| -> String {
        match e {
            Elem::Bits(w) => scalar(*w, v),
            Elem::Ty(t) => match d.ty_kind(t) {
                Some(TyKind::Enum) => format!("static_cast<{t}>({}ULL)", v.as_u64().unwrap_or(0)),
                Some(TyKind::Struct) => struct_expr(d, r, t, v),
                _ => "0".into(),
            },
        }
    };
    let inner = |v: &Value| -> String {
        match &f.k {
            FK::Scalar { w, .. } => scalar(*w, v),
            FK::Enum { ty, .. } => format!("static_cast<{ty}>({}ULL)", v.as_u64().unwrap_or(0)),
            FK::Struct { ty, .. } => struct_expr(d, r, ty, v),
            FK::Array { elem, count, .. } => {
                let items: Vec<String> = v.as_array().map(|a| a.iter().map(|x| elem_expr(elem, x)).collect()).unwrap_or_default();
                let et = elem_cpp_ty(d, elem);
                match count {
                    Some(c) => format!("std::array<{et}, {c}>{{{{{}}}}}", items.join(", ")),
                    None => format!("std::vector<{et}>{{{}}}", items.join(", ")),
                }
            }
            _ => "0".into(),
        }
    };
    if f.cond.is_some() {
        let t = match &f.k {
            FK::Scalar { w, .. } => scalar_ty(*w).to_string(),
            FK::Enum { ty, .. } | FK::Struct { ty, .. } => ty.clone(),
            _ => "uint8_t".into(),
        };
        if v.is_null() {
            format!("std::optional<{t}>()")
        } else {
            format!("std::optional<{t}>({})", inner(v))
        }
    } else {
        inner(v)
    }
}

fn struct_expr(d: &Desc, r: &Ref, ty: &str, v: &Value) -> String {
    let fl = r.flat(ty);
    let args: Vec<String> = fl.data_fields().iter().map(|f| value_expr(d, r, f, &v[f.id().unwrap()])).collect();
    format!("{ty}({})", args.join(", "))
}

/// builder constructor arguments: every level's unconstrained data fields in order; the payload of
/// the last level at its position
fn builder_args(d: &Desc, r: &Ref, ty: &str, v: &Value) -> String {
    let fl = r.flat(ty);
    let mut args = vec![];
    let n = fl.levels.len();
    for (li, level) in fl.levels.iter().enumerate() {
        for f in &level.fields {
            match &f.k {
                FK::Payload { .. } if li + 1 == n => {
                    let items: Vec<String> = v["payload"].as_array().map(|a| a.iter().map(|x| x.as_u64().unwrap_or(0).to_string()).collect()).unwrap_or_default();
                    args.push(format!("std::vector<uint8_t>{{{}}}", items.join(", ")));
                }
                _ if f.is_data() && !fl.cons.contains_key(f.id().unwrap()) => args.push(value_expr(d, r, f, &v[f.id().unwrap()])),
                _ => {}
            }
        }
    }
    args.join(", ")
}

pub fn emit_driver(d: &Desc, baked: &BTreeMap<String, Vec<Value>>) -> String {
    let r = Ref::new(d);
    let mut s = String::new();
    s.push_str("#include <cstdio>\n#include <cstdint>\n#include <iostream>\n#include <memory>\n#include <string>\n#include <vector>\n#include \"gen.h\"\nusing namespace ns;\n");
    s.push_str("static std::string J(uint64_t v) { return std::to_string(v); }\n");
    s.push_str("template <typename C, typename F> static std::string JA(C const& c, F f) { std::string o = \"[\"; bool first = true; for (auto const& e : c) { if (!first) o += \",\"; first = false; o += f(e); } return o + \"]\"; }\n");
    s.push_str("static std::string HEX(std::vector<uint8_t> const& b) { static const char* d = \"0123456789abcdef\"; std::string o; for (auto x : b) { o += d[x >> 4]; o += d[x & 15]; } return o; }\n");
    s.push_str("static std::vector<uint8_t> UNHEX(std::string const& h) { std::vector<uint8_t> b; for (size_t i = 0; i + 1 < h.size(); i += 2) b.push_back((uint8_t)std::stoul(h.substr(i, 2), nullptr, 16)); return b; }\n");
    // struct printers (structs come first in cxx-profile descriptions, in dependency order)
    let records = d.record_ids();
    for id in &records {
        let Some(Decl::Record { packet: false, .. }) = d.get(id) else { continue };
        s.push_str(&format!("static std::string pr_{id}({id} const& s);\n"));
    }
    for id in &records {
        let Some(Decl::Record { packet: false, .. }) = d.get(id) else { continue };
        let fl = r.flat(id);
        s.push_str(&format!("static std::string pr_{id}({id} const& s) {{ std::string o = \"{{\"; bool first = true; (void)first;\n"));
        for f in fl.data_fields() {
            let fid = f.id().unwrap();
            s.push_str(&format!("  if (!first) o += \",\"; first = false; o += \"\\\"{fid}\\\":\" + {};\n", print_expr(d, f, &format!("s.{fid}_"))));
        }
        if fl.has_payload() {
            s.push_str("  if (!first) o += \",\"; first = false; o += \"\\\"payload\\\":\" + JA(s.payload_, [](auto const& e) { return J((uint64_t)e); });\n");
        }
        s.push_str("  return o + \"}\"; }\n");
    }
    // decoders
    for id in &records {
        let Some(Decl::Record { packet, .. }) = d.get(id) else { continue };
        let fl = r.flat(id);
        s.push_str(&format!("static std::string dec_{id}(std::vector<uint8_t> const& b) {{\n  auto sp = std::make_shared<const std::vector<uint8_t>>(b); pdl::packet::slice sl(sp);\n"));
        if *packet {
            let chain = d.chain(id).unwrap_or_default();
            let mut prev = "sl".to_string();
            for (k, c) in chain.iter().enumerate() {
                s.push_str(&format!("  auto v{k} = {c}View::Create({prev});\n"));
                prev = format!("v{k}");
            }
            s.push_str(&format!("  auto const& v = {prev};\n  if (!v.IsValid()) return \"INVALID\";\n  std::string o = \"{{\"; bool first = true; (void)first;\n"));
            for f in fl.data_fields() {
                let fid = f.id().unwrap();
                s.push_str(&format!("  if (!first) o += \",\"; first = false; o += \"\\\"{fid}\\\":\" + {};\n", print_expr(d, f, &format!("v.Get{}()", cap(fid)))));
            }
            if fl.has_payload() {
                s.push_str("  if (!first) o += \",\"; first = false; o += \"\\\"payload\\\":\" + JA(v.GetPayload(), [](auto const& e) { return J((uint64_t)e); });\n");
            }
            s.push_str("  return \"OK \" + o + \"}\";\n}\n");
        } else {
            s.push_str(&format!("  {id} st; if (!{id}::Parse(sl, &st)) return \"INVALID\"; if (sl.size() != 0) return \"INVALID\";\n  return \"OK \" + pr_{id}(st);\n}}\n"));
        }
    }
    // baked builder vectors
    for id in &records {
        let Some(Decl::Record { packet, .. }) = d.get(id) else { continue };
        let vals = baked.get(id).cloned().unwrap_or_default();
        s.push_str(&format!("static std::string enc_{id}(size_t k) {{ std::vector<uint8_t> out; size_t sz = 0;\n  switch (k) {{\n"));
        for (k, v) in vals.iter().enumerate() {
            if *packet {
                s.push_str(&format!("    case {k}: {{ {id}Builder b({}); b.Serialize(out); sz = b.GetSize(); break; }}\n", builder_args(d, &r, id, v)));
            } else {
                s.push_str(&format!("    case {k}: {{ {id} b = {}; b.Serialize(out); sz = b.GetSize(); break; }}\n", struct_expr(d, &r, id, v)));
            }
        }
        s.push_str("    default: return \"NOVEC\";\n  }\n  return \"OK \" + HEX(out) + \" \" + std::to_string(sz);\n}\n");
    }
    s.push_str("int main() { std::string line; while (std::getline(std::cin, line)) {\n  size_t a = line.find('\\t'); if (a == std::string::npos) continue; std::string n = line.substr(0, a);\n  size_t b = line.find('\\t', a + 1); std::string op = line.substr(a + 1, b - a - 1); if (op == \"Q\") break;\n  size_t c = line.find('\\t', b + 1); std::string ty = line.substr(b + 1, c - b - 1); std::string arg = c == std::string::npos ? \"\" : line.substr(c + 1);\n  std::string out = \"NOTYPE\";\n");
    for id in &records {
        s.push_str(&format!("  if (ty == \"{id}\") {{ if (op == \"D\") out = dec_{id}(UNHEX(arg)); else out = enc_{id}((size_t)std::stoul(arg)); }}\n"));
    }
    s.push_str("  std::cout << n << \"\\t\" << out << std::endl;\n} return 0; }\n");
    s
}

pub struct CxxBuilt {
    pub dir: PathBuf,
    /// description index -> (asan exe, ndebug exe)
    pub exes: BTreeMap<usize, (PathBuf, PathBuf)>,
    pub baked: BTreeMap<usize, BTreeMap<String, Vec<Value>>>,
    pub build_rejects: Vec<(usize, String)>,
}

pub fn build_all(dir: &Path, descs: &[RemoteDesc], baked: BTreeMap<usize, BTreeMap<String, Vec<Value>>>, headers: &BTreeMap<usize, String>) -> CxxBuilt {
    let _ = std::fs::remove_dir_all(dir);
    let _ = std::fs::create_dir_all(dir);
    let jobs: Vec<(usize, PathBuf)> = descs
        .iter()
        .filter_map(|rd| {
            let h = headers.get(&rd.idx)?;
            let dd = dir.join(format!("d{}", rd.idx));
            let _ = std::fs::create_dir_all(&dd);
            let _ = std::fs::write(dd.join("gen.h"), h);
            let empty = BTreeMap::new();
            let _ = std::fs::write(dd.join("drv.cc"), emit_driver(&rd.desc, baked.get(&rd.idx).unwrap_or(&empty)));
            Some((rd.idx, dd))
        })
        .collect();
    let results: Vec<(usize, Result<(PathBuf, PathBuf), String>)> = std::thread::scope(|sc| {
        let hs: Vec<_> = jobs
            .iter()
            .flat_map(|(idx, dd)| {
                [true, false].into_iter().map(move |asan| {
                    let dd = dd.clone();
                    let idx = *idx;
                    sc.spawn(move || {
                        let _slot = crate::compile::compile_slot();
                        let exe = dd.join(if asan { "drv_asan" } else { "drv_ndebug" });
                        let mut c = Command::new("g++");
                        c.args(["-std=c++17", "-O1", "-w", "-I/repo/pdl-compiler/scripts", "-I"]).arg(&dd);
                        if asan {
                            c.args(["-g", "-fsanitize=address,undefined", "-fno-sanitize-recover=all", "-fno-omit-frame-pointer"]);
                        } else {
                            c.arg("-DNDEBUG");
                        }
                        c.arg(dd.join("drv.cc")).arg("-o").arg(&exe);
                        match crate::compile::output_with_timeout(c, 900) {
                            Ok(o) if o.status.success() => (idx, asan, Ok(exe)),
                            Ok(o) => (idx, asan, Err(String::from_utf8_lossy(&o.stderr).lines().find(|l| l.contains("error")).unwrap_or("g++ failed").to_string())),
                            Err(e) => (idx, asan, Err(e.to_string())),
                        }
                    })
                })
            })
            .collect();
        let mut m: BTreeMap<usize, (Option<PathBuf>, Option<PathBuf>, Option<String>)> = BTreeMap::new();
        for h in hs {
            let (idx, asan, r) = h.join().unwrap();
            let e = m.entry(idx).or_insert((None, None, None));
            match r {
                Ok(p) => {
                    if asan {
                        e.0 = Some(p)
                    } else {
                        e.1 = Some(p)
                    }
                }
                Err(x) => e.2 = Some(x),
            }
        }
        m.into_iter()
            .map(|(idx, (a, b, e))| match (a, b, e) {
                (Some(a), Some(b), None) => (idx, Ok((a, b))),
                (_, _, e) => (idx, Err(e.unwrap_or_default())),
            })
            .collect()
    });
    let mut exes = BTreeMap::new();
    let mut rejects = vec![];
    for (idx, r) in results {
        match r {
            Ok(p) => {
                exes.insert(idx, p);
            }
            Err(e) => rejects.push((idx, e)),
        }
    }
    CxxBuilt { dir: dir.to_path_buf(), exes, baked, build_rejects: rejects }
}

pub struct CxxTarget<'a> {
    pub built: &'a CxxBuilt,
    cur: Option<(usize, Pipe, Pipe)>,
}

impl<'a> CxxTarget<'a> {
    pub fn new(built: &'a CxxBuilt) -> CxxTarget<'a> {
        CxxTarget { built, cur: None }
    }
    fn pipes(&mut self, di: usize) -> Result<&mut (usize, Pipe, Pipe), String> {
        if self.cur.as_ref().map(|c| c.0) != Some(di) {
            let (a, b) = self.built.exes.get(&di).ok_or("description not built")?;
            let mut ca = Command::new(a);
            ca.env("ASAN_OPTIONS", "detect_leaks=0:abort_on_error=0").env("UBSAN_OPTIONS", "print_stacktrace=0");
            let cb = Command::new(b);
            self.cur = Some((di, Pipe::spawn(ca)?, Pipe::spawn(cb)?));
        }
        Ok(self.cur.as_mut().unwrap())
    }
    fn both(&mut self, di: usize, fields: &[&str]) -> Result<Vec<String>, String> {
        let p = self.pipes(di)?;
        let ra = p.1.call(fields);
        let rb = p.2.call(fields);
        match (ra, rb) {
            (Ok(a), Ok(b)) => {
                if a != b {
                    Err(format!("sanitizer build and NDEBUG build disagree: {:?} vs {:?}", a, b))
                } else {
                    Ok(a)
                }
            }
            (Err(e), _) => {
                self.cur = None;
                Err(format!("sanitizer build: {e}"))
            }
            (_, Err(e)) => {
                self.cur = None;
                Err(format!("NDEBUG build: {e}"))
            }
        }
    }
}

impl<'a> Target for CxxTarget<'a> {
    fn dec(&mut self, di: usize, ty: &str, _root: &str, b: &[u8]) -> RDec {
        match self.both(di, &["D", ty, &hex(b)]) {
            Err(e) => RDec::Crash(e),
            Ok(p) => {
                let out = p.first().cloned().unwrap_or_default();
                if out == "INVALID" {
                    RDec::Err { class: "Invalid".into(), proper: true, msg: String::new() }
                } else if let Some(j) = out.strip_prefix("OK ") {
                    RDec::Ok { class: ty.to_string(), value: serde_json::from_str(j).unwrap_or(Value::Null), reser: Err("n/a".into()), size: Err("-".into()) }
                } else {
                    RDec::Crash(format!("protocol: {out}"))
                }
            }
        }
    }
    fn enc(&mut self, di: usize, ty: &str, v: &Value) -> REnc {
        let Some(k) = self.built.baked.get(&di).and_then(|m| m.get(ty)).and_then(|l| l.iter().position(|x| x == v)) else { return REnc::Crash("value not baked".into()) };
        match self.both(di, &["V", ty, &k.to_string()]) {
            Err(e) => REnc::Crash(e),
            Ok(p) => {
                let out = p.first().cloned().unwrap_or_default();
                let parts: Vec<&str> = out.split(' ').collect();
                if parts.len() == 3 && parts[0] == "OK" {
                    let bytes = unhex(parts[1]);
                    let sz: u64 = parts[2].parse().unwrap_or(u64::MAX);
                    let size = if sz == bytes.len() as u64 { Ok(sz) } else { Err(format!("GetSize() = {sz}, serialized {} octets", bytes.len())) };
                    REnc::Ok { bytes, size }
                } else {
                    REnc::Crash(format!("protocol: {out}"))
                }
            }
        }
    }
    fn restart(&mut self) -> Result<(), String> {
        self.cur = None;
        Ok(())
    }
    fn baked_values(&self, di: usize, ty: &str) -> Option<Vec<Value>> {
        self.built.baked.get(&di).and_then(|m| m.get(ty)).cloned()
    }
}

pub const _V: &str = VERIF;

#!/bin/bash
# usage: run_mutant.sh <patch.diff> <prop> [<prop>...]   — applies a seeded change to /repo, runs the checks, reverts.
set -u
patch=$1; shift
cd /repo || exit 2
if [ -n "$(git status --porcelain --untracked-files=no)" ]; then echo "/repo not clean"; exit 2; fi
git apply "$patch" || { echo "patch does not apply"; exit 2; }
for p in "$@"; do
  echo "=== $p with $(basename $(dirname $(dirname $patch)))"
  (cd /verif && timeout 3000 ./vcheck $p --tier quick 2>&1 | grep -E "^(C[0-9]+ quick|VIOLATION|  violation|infrastructure|inconclusive)" | cut -c1-420 | head -8)
done
git checkout -- . 

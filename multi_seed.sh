#!/bin/bash
# usage: multi_seed.sh <seed> [<prop>...]   — runs the quick tier of every (or the given) check at one seed; one summary line per check
seed=$1; shift
props=${@:-C01 C02 C03 C04 C05 C06 C07 C08 C09 C10 C11 C12 C13 C14 C15 C16 C17 C18 C19}
cd /verif
for p in $props; do
  out=$(VERIF_SEED=$seed timeout 7200 ./vcheck $p --tier quick 2>&1); rc=$?
  echo "seed=$seed $p rc=$rc $(echo "$out" | grep -E "^C[0-9]+ quick" | cut -c1-160) violations=$(echo "$out" | grep -c '^VIOLATION')"
  echo "$out" | grep -E "^  violation" | cut -c1-300 | head -5
done

import json, sys
class Err(Exception):
    def __init__(s,k): s.kind=k
class Model:
    def __init__(s, path):
        a=json.load(open(path)); s.big = a['endianness']['value']=='big_endian'
        s.decls={d['id']:d for d in a['declarations'] if 'id' in d}
    def flat(s, decl, cons=None):
        out=[]
        cons=cons or {}
        for f in decl['fields']:
            k=f['kind']
            if k=='group_field':
                c=dict(cons); c.update({x['id']:x for x in f['constraints']})
                out+=s.flat(s.decls[f['group_id']], c)
            elif k=='scalar_field' and f['id'] in cons:
                out.append({'kind':'fixed_field','width':f['width'],'value':cons[f['id']]['value'],'cond':None})
            elif k=='typedef_field' and f['id'] in cons:
                out.append({'kind':'fixed_field','enum_id':f['type_id'],'tag_id':cons[f['id']]['tag_id'],'cond':None})
            else: out.append(f)
        return out
    def chain(s, decl):
        c=[decl]
        while c[0].get('parent_id'): c.insert(0, s.decls[c[0]['parent_id']])
        return c
    def tagval(s, enum_id, tag_id):
        for t in s.decls[enum_id]['tags']:
            if t['id']==tag_id: return t['value']
            for u in t.get('tags',[]) or []:
                if u['id']==tag_id: return u['value']
        raise KeyError(tag_id)
    def enum_ok(s, enum_id, v):
        e=s.decls[enum_id]
        for t in e['tags']:
            if t.get('value')==v: return True
            if t.get('range') and t['range']['start']<=v<=t['range']['end']: return True
            if t.get('value') is None and not t.get('range'): return True
        return False
    def is_bit(s,f):
        k=f['kind']
        if k in('scalar_field','size_field','count_field','elementsize_field','fixed_field','reserved_field'): return f.get('cond') is None
        if k=='typedef_field': return s.decls[f['type_id']]['kind']=='enum_declaration' and f.get('cond') is None
        return False
    def width(s,f):
        if 'width' in f and f['kind']!='array_field': return f['width']
        if f['kind']=='fixed_field': return s.decls[f['enum_id']]['width']
        if f['kind']=='typedef_field': return s.decls[f['type_id']]['width']
    # ---------- encode
    def enc_int(s,v,n): return v.to_bytes(n,'big' if s.big else 'little')
    def encode(s, decl_id, val):
        ch=s.chain(s.decls[decl_id]); cons={}
        for d in ch:
            for c in d['constraints']: cons[c['id']]=c
        def enc_level(i):
            d=ch[i]; fields=s.flat(d); out=bytearray(); acc=0; sh=0
            payload = enc_level(i+1) if i+1<len(ch) else bytes(val.get('payload',[]))
            def fval(f):
                fid=f['id']
                if fid in cons:
                    c=cons[fid]
                    return c['value'] if c['value'] is not None else s.tagval(f['type_id'], c['tag_id'])
                return val[fid]
            def arr_bytes(f):
                v=fval(f); b=bytearray()
                for e in v: b+=s.enc_elem(f,e)
                return bytes(b)
            byid={f.get('id'):f for f in fields if f.get('id')}
            flags={}
            for f in fields:
                if f.get('cond'): flags.setdefault(f['cond']['id'],[]).append((f['id'],f['cond']['value']))
            for idx,f in enumerate(fields):
                k=f['kind']
                if s.is_bit(f):
                    w=s.width(f)
                    if k=='scalar_field':
                        if f['id'] in flags:
                            oid,cv=flags[f['id']][0]; v = cv if val.get(oid) is not None else 1-cv
                        else: v=fval(f)
                    elif k=='typedef_field': v=fval(f)
                    elif k=='reserved_field': v=0
                    elif k=='fixed_field': v = f['value'] if 'value' in f and f.get('value') is not None else s.tagval(f['enum_id'],f['tag_id'])
                    elif k=='size_field':
                        t=f['field_id']
                        if t in('_payload_','_body_'):
                            pf=[x for x in fields if x['kind'] in('payload_field','body_field')][0]
                            m=int(pf.get('size_modifier') or 0); v=len(payload)+m
                        else:
                            af=byid[t]; m=int(af.get('size_modifier') or 0); v=len(arr_bytes(af))+m
                    elif k=='count_field': v=len(fval(byid[f['field_id']]))
                    elif k=='elementsize_field':
                        es=[len(s.enc_elem(byid[f['field_id']],e)) for e in fval(byid[f['field_id']])]; v=es[0] if es else 0
                    if v>=(1<<w): raise Err('Range')
                    acc|=v<<sh; sh+=w
                    if sh%8==0: out+=s.enc_int(acc,sh//8); acc=0; sh=0
                    continue
                assert sh==0,(decl_id,f)
                if f.get('cond'):
                    v=val.get(f['id'])
                    if v is None: continue
                    if k=='scalar_field': out+=s.enc_int(v,f['width']//8)
                    elif s.decls[f['type_id']]['kind']=='enum_declaration': out+=s.enc_int(v,s.decls[f['type_id']]['width']//8)
                    else: out+=s.encode(f['type_id'],v)
                elif k=='array_field':
                    b=arr_bytes(f)
                    nxt=fields[idx+1] if idx+1<len(fields) else None
                    if nxt and nxt['kind']=='padding_field':
                        if len(b)>nxt['size']: raise Err('Padding')
                        b=b+bytes(nxt['size']-len(b))
                    out+=b
                elif k=='typedef_field':
                    t=s.decls[f['type_id']]
                    if t['kind']=='custom_field_declaration': out+=s.enc_int(fval(f),t['width']//8)
                    else: out+=s.encode(f['type_id'],fval(f))
                elif k in('payload_field','body_field'): out+=payload
                elif k in('padding_field','checksum_field'): pass
                else: raise Exception(k)
            return bytes(out)
        return enc_level(0)
    def enc_elem(s,f,e):
        if f.get('width'): return s.enc_int(e,f['width']//8)
        t=s.decls[f['type_id']]
        if t['kind']=='enum_declaration': return s.enc_int(e,t['width']//8)
        if t['kind']=='custom_field_declaration': return s.enc_int(e,t['width']//8)
        return s.encode(f['type_id'],e)
    # ---------- decode
    def dec_int(s,b): return int.from_bytes(b,'big' if s.big else 'little')
    def static_bits(s,f,fields,idx):
        k=f['kind']
        if f.get('cond'): return None
        if s.is_bit(f): return s.width(f)
        if k=='padding_field': return 0
        if k=='array_field':
            if idx+1<len(fields) and fields[idx+1]['kind']=='padding_field': return fields[idx+1]['size']*8
            ew=f.get('width') or s.decl_static(f['type_id'])
            if f.get('size') is not None and ew is not None: return f['size']*ew
            return None
        if k=='typedef_field': return s.decl_static(f['type_id'])
        return None
    def decl_static(s,id):
        d=s.decls[id]
        if d['kind'] in('enum_declaration','custom_field_declaration','checksum_declaration'): return d.get('width')
        tot=0; fl=s.flat(d)
        for i,f in enumerate(fl):
            b=s.static_bits(f,fl,i)
            if b is None: return None
            tot+=b
        if d.get('parent_id'):
            return None
        return tot
    def decode(s, decl_id, data, full=True):
        ch=s.chain(s.decls[decl_id]); val={}
        span=bytes(data); rest=b''
        for i,d in enumerate(ch):
            for c in d['constraints']:
                exp = c['value'] if c['value'] is not None else None
                if exp is None:
                    pf=[f for dd in ch[:i] for f in s.flat(dd) if f.get('id')==c['id']][0]
                    exp=s.tagval(pf['type_id'],c['tag_id'])
                if val.get(c['id'])!=exp: raise Err('ConstraintValueError')
            v,r,payload=s.dec_fields(d,span)
            val.update(v)
            if i==0: rest=r
            elif r: raise Err('TrailingBytesError')
            if i+1<len(ch): span=payload
            elif payload is not None: val['payload']=list(payload)
        if full and rest: raise Err('TrailingBytesError')
        return val, rest
    def dec_fields(s,d,span):
        fields=s.flat(d); val={}; acc=[]; sh=0; sizes={}; counts={}; esz={}; flagv={}; payload=None
        flags=set(f['cond']['id'] for f in fields if f.get('cond'))
        def need(n):
            if len(span)<n: raise Err('LengthError')
        for idx,f in enumerate(fields):
            k=f['kind']
            if s.is_bit(f):
                acc.append((sh,f)); sh+=s.width(f)
                if sh%8: continue
                n=sh//8; need(n); x=s.dec_int(span[:n]); span=span[n:]
                for (o,g) in acc:
                    w=s.width(g); v=(x>>o)&((1<<w)-1); gk=g['kind']
                    if gk=='scalar_field':
                        if g['id'] in flags: flagv[g['id']]=v
                        else: val[g['id']]=v
                    elif gk=='typedef_field':
                        if not s.enum_ok(g['type_id'],v): raise Err('EnumValueError')
                        val[g['id']]=v
                    elif gk=='fixed_field':
                        e = g['value'] if g.get('value') is not None else s.tagval(g['enum_id'],g['tag_id'])
                        if v!=e: raise Err('FixedValueError')
                    elif gk=='size_field': sizes[g['field_id']]=v
                    elif gk=='count_field': counts[g['field_id']]=v
                    elif gk=='elementsize_field': esz[g['field_id']]=v
                acc=[]; sh=0; continue
            if f.get('cond'):
                if flagv[f['cond']['id']]!=f['cond']['value']: val[f['id']]=None; continue
                if k=='scalar_field':
                    n=f['width']//8; need(n); val[f['id']]=s.dec_int(span[:n]); span=span[n:]
                elif s.decls[f['type_id']]['kind']=='enum_declaration':
                    n=s.decls[f['type_id']]['width']//8; need(n); v=s.dec_int(span[:n]); span=span[n:]
                    if not s.enum_ok(f['type_id'],v): raise Err('EnumValueError')
                    val[f['id']]=v
                else:
                    v,span=s.decode(f['type_id'],span,full=False); val[f['id']]=v
            elif k=='array_field':
                fid=f['id']; window=None
                if idx+1<len(fields) and fields[idx+1]['kind']=='padding_field':
                    p=fields[idx+1]['size']; need(p); window=span[:p]; after=span[p:]; cur=window
                else: cur=span
                ew=(f.get('width') or s.decl_static(f['type_id']))
                ew = ew//8 if ew is not None else None
                mod=int(f.get('size_modifier') or 0)
                def elem(b):
                    if f.get('width'):
                        n=f['width']//8
                        if len(b)<n: raise Err('LengthError')
                        return s.dec_int(b[:n]), b[n:]
                    t=s.decls[f['type_id']]
                    if t['kind'] in('enum_declaration','custom_field_declaration'):
                        n=t['width']//8
                        if len(b)<n: raise Err('LengthError')
                        v=s.dec_int(b[:n])
                        if t['kind']=='enum_declaration' and not s.enum_ok(f['type_id'],v): raise Err('EnumValueError')
                        return v,b[n:]
                    return s.decode(f['type_id'],b,full=False)
                out=[]
                if fid in esz:
                    E=esz[fid]
                    if f.get('size') is not None: n=f['size']
                    elif fid in counts: n=counts[fid]
                    else:
                        tot=sizes[fid]-mod if fid in sizes else len(cur)
                        if len(cur)<tot: raise Err('LengthError')
                        if E==0:
                            if tot!=0: raise Err('ArraySizeError')
                            n=0
                        else:
                            if tot%E: raise Err('ArraySizeError')
                            n=tot//E
                    if len(cur)<n*E: raise Err('LengthError')
                    for i in range(n):
                        v,r=elem(cur[i*E:(i+1)*E])
                        if r: raise Err('TrailingBytesInArray')
                        out.append(v)
                    cur=cur[n*E:]
                elif f.get('size') is not None:
                    if ew is not None and len(cur)<ew*f['size']: raise Err('LengthError')
                    for i in range(f['size']): v,cur=elem(cur); out.append(v)
                elif fid in counts:
                    if ew is not None and len(cur)<ew*counts[fid]: raise Err('LengthError')
                    for i in range(counts[fid]): v,cur=elem(cur); out.append(v)
                else:
                    if fid in sizes:
                        tot=sizes[fid]-mod
                        if tot<0 or len(cur)<tot: raise Err('LengthError')
                        sub=cur[:tot]; cur=cur[tot:]
                    else: sub=cur; cur=b''
                    if ew is not None and ew>0 and len(sub)%ew: raise Err('ArraySizeError')
                    while sub: v,sub=elem(sub); out.append(v)
                val[fid]=out
                span = after if window is not None else cur
            elif k=='typedef_field':
                t=s.decls[f['type_id']]
                if t['kind']=='custom_field_declaration':
                    n=t['width']//8; need(n); val[f['id']]=s.dec_int(span[:n]); span=span[n:]
                else: val[f['id']],span=s.decode(f['type_id'],span,full=False)
            elif k in('payload_field','body_field'):
                key='_payload_' if k=='payload_field' else '_body_'
                if key in sizes:
                    m=int(f.get('size_modifier') or 0)
                    if sizes[key]<m: raise Err('LengthError')
                    n=sizes[key]-m; need(n); payload=span[:n]; span=span[n:]
                else:
                    tail=0
                    for j in range(idx+1,len(fields)):
                        b=s.static_bits(fields[j],fields,j); tail+= b if b is not None else 0
                    tail//=8; need(tail); payload=span[:len(span)-tail]; span=span[len(span)-tail:]
            elif k in('padding_field','checksum_field'): pass
            else: raise Exception(k)
        return val,span,payload
def norm(v):
    if isinstance(v,dict): return {k:norm(x) for k,x in v.items()}
    if isinstance(v,list): return [norm(x) for x in v]
    return v
def sub(exp,got):
    if isinstance(exp,dict): return all(k in got and sub(v,got[k]) for k,v in exp.items())
    if isinstance(exp,list): return len(exp)==len(got) and all(sub(a,b) for a,b in zip(exp,got))
    return exp==got
if __name__=='__main__':
    m=Model(sys.argv[1]); vec=json.load(open(sys.argv[2])); skip=('Checksum','Custom_Field_VariableSize','UnsizedCustomField')
    n=ok=0; bad=[]
    for x in vec:
        for t in x['tests']:
            name=t.get('packet') or x['packet']
            if any(k in name for k in skip) or any(k in x['packet'] for k in skip): continue
            n+=1; b=bytes.fromhex(t['packed'])
            try:
                if 'expected_error' in t:
                    try: m.decode(name,b); bad.append((name,t['packed'],'accepted'))
                    except Err as e:
                        if e.kind==t['expected_error']: ok+=1
                        else: bad.append((name,t['packed'],e.kind,t['expected_error']))
                    continue
                v,_=m.decode(name,b)
                e=m.encode(name,t['unpacked'])
                if sub(t['unpacked'],v) and e==b: ok+=1
                else: bad.append((name,t['packed'],e.hex(),v))
            except Err as e: bad.append((name,t['packed'],'ERR',e.kind))
            except Exception as e: bad.append((name,t['packed'],'EXC',repr(e)))
    print(n,ok); 
    for b in bad[:25]: print(b)

import json, random, subprocess, sys, collections, re, os
sys.path.insert(0,'.')
from ref import Model, Err
m=Model('le.json'); vec=json.load(open('/repo/pdl-compiler/tests/canonical/le_test_vectors.json'))
def camel(id):
    s=''.join(w[:1].upper()+w[1:] for w in re.split('_+',id) if w)
    return s+'_' if id.endswith('_') else s
have=set(f[:-6] for f in os.listdir('/tmp/scratch/jcanon/t/le') if f.endswith('.class'))
cases=[]
for x in vec:
    for t in x['tests']:
        name=t.get('packet') or x['packet']
        if camel(name) not in have: continue
        b=bytes.fromhex(t['packed']); muts=[('valid',b)]
        for i in range(len(b)): muts.append(('prefix',b[:i]))
        muts.append(('ext',b+b'\x01'))
        for i in range(min(len(b),6)):
            for v in (0,1,0x7f,0x80,0xff,(b[i]+1)&255,(b[i]-1)&255):
                mb=bytearray(b); mb[i]=v; muts.append(('byte%d'%i,bytes(mb)))
        for lab,mb in muts: cases.append((name,lab,mb))
cases=list(dict.fromkeys(cases))
inp='\n'.join(f'{camel(n)} {b.hex() or "-"}' for n,_,b in cases)+'\n'
out=subprocess.run(['java','-cp','/tmp/scratch/jcanon','Drv'],input=inp.encode(),capture_output=True).stdout.decode().splitlines()
assert len(out)==len(cases),(len(out),len(cases))
stat=collections.Counter(); diffs=collections.defaultdict(list)
for (name,lab,b),o in zip(cases,out):
    try:
        v,_=m.decode(name,b); r=('OK',m.encode(name,v).hex() or '-')
    except Err as e: r=('ERR',e.kind)
    if o.startswith('OK'):
        _,cls,h=o.split(' ')
        if r[0]!='OK': diffs[('java-accepts',name,r[1])].append((lab,b.hex(),cls)); continue
        if h!=r[1]: diffs[('reencode',name)].append((lab,b.hex(),r[1],h)); continue
        stat['agree-ok']+=1
    elif o.startswith('ERR'):
        if r[0]=='OK': diffs[('java-rejects',name,o)].append((lab,b.hex())); continue
        stat['agree-err']+=1; stat['exc:'+o.split(' ')[1]]+=1
    else: diffs[('other',name,o[:60])].append((lab,b.hex()))
print(len(cases),dict(stat))
for k in sorted(diffs,key=str): print(k,len(diffs[k]),str(diffs[k][0])[:200])

import json, random, subprocess, sys, collections, copy
sys.path.insert(0,'.')
from ref import Model, Err
m=Model('le.json'); vec=json.load(open('/repo/pdl-compiler/tests/canonical/le_test_vectors.json'))
random.seed(1)
skip=('Checksum','Custom_Field','UnsizedCustomField','SizeModifier')
def scalar_paths(decl_id, val, prefix=()):
    # yield (path, width) for scalar fields & scalar array elements present in val
    out=[]
    d=m.decls[decl_id]
    for dd in m.chain(d):
        for f in m.flat(dd):
            fid=f.get('id')
            if fid is None or fid not in val or val[fid] is None: continue
            if f['kind']=='scalar_field': out.append((prefix+(fid,),f['width'],'scalar'))
            elif f['kind']=='array_field' and f.get('width') and val[fid]: out.append((prefix+(fid,0),f['width'],'elem'))
            elif f['kind']=='typedef_field' and m.decls[f['type_id']]['kind']=='struct_declaration':
                out+=scalar_paths(f['type_id'],val[fid],prefix+(fid,))
    return out
def setp(v,path,x):
    v=copy.deepcopy(v); o=v
    for p in path[:-1]: o=o[p]
    o[path[-1]]=x; return v
cases=[]
for x in vec:
    for t in x['tests']:
        if 'expected_error' in t: continue
        name=t.get('packet') or x['packet']
        if any(k in name or k in x['packet'] for k in skip): continue
        v=t['unpacked']; cases.append((name,'valid',v))
        cons={c['id'] for dd in m.chain(m.decls[name]) for c in dd['constraints']}
        for path,w,kind in scalar_paths(name,v):
            if path[0] in cons: continue
            back=[b for b in (8,16,32,64) if b>=w][0]
            if back>w:
                cases.append((name,'oor:'+kind,setp(v,path,1<<w)))
                cases.append((name,'oor:'+kind,setp(v,path,(1<<back)-1)))
            cases.append((name,'max:'+kind,setp(v,path,(1<<w)-1)))
seen=set(); uc=[]
for c in cases:
    k=(c[0],c[1],json.dumps(c[2],sort_keys=True))
    if k not in seen: seen.add(k); uc.append(c)
cases=uc
inp='\n'.join(f'E:{n} {json.dumps(v)}' for n,_,v in cases)+'\n'
out=subprocess.run(['/tmp/scratch/h/target/debug/h'],input=inp.encode(),capture_output=True).stdout.decode().splitlines()
assert len(out)==len(cases)
stat=collections.Counter(); diffs=collections.defaultdict(list)
for (name,lab,v),o in zip(cases,out):
    try: r=('OK',m.encode(name,v).hex() or '-')
    except Err as e: r=('ERR',e.kind)
    except Exception as e: r=('EXC',repr(e))
    if o.startswith('OK'):
        _,h,l=o.split(' ')
        if r[0]!='OK': diffs[('rust-ok-ref-err',lab,name)].append((json.dumps(v)[:80],h)); continue
        if h!=r[1]: diffs[('bytes',lab,name)].append((json.dumps(v)[:80],r[1],h)); continue
        if (0 if h=='-' else len(h)//2)!=int(l): diffs[('encoded_len',name)].append((v,h,l)); continue
        stat['agree-ok:'+lab]+=1
    elif o.startswith('ERR'):
        if r[0]=='OK': diffs[('rust-err-ref-ok',lab,name,o)].append(json.dumps(v)[:80]); continue
        stat['agree-err:'+lab+':'+o.split()[1]]+=1
    else: diffs[(o[:40],lab,name)].append(json.dumps(v)[:100])
print(len(cases),dict(stat))
for k in sorted(diffs,key=str): print(k,len(diffs[k]),str(diffs[k][0])[:220])

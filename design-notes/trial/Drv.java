import java.io.*; import java.lang.reflect.*; import java.util.*;
public class Drv {
  static String hex(byte[] b){ StringBuilder s=new StringBuilder(); for(byte x:b) s.append(String.format("%02x",x)); return s.toString(); }
  static byte[] unhex(String h){ if(h.equals("-")) return new byte[0]; byte[] b=new byte[h.length()/2]; for(int i=0;i<b.length;i++) b[i]=(byte)Integer.parseInt(h.substring(2*i,2*i+2),16); return b; }
  public static void main(String[] a) throws Exception {
    BufferedReader in=new BufferedReader(new InputStreamReader(System.in)); PrintStream out=new PrintStream(new BufferedOutputStream(System.out));
    String l; while((l=in.readLine())!=null){ String[] p=l.split(" "); 
      try { Class<?> c=Class.forName("t.le."+p[0]); Method m=c.getMethod("fromBytes", byte[].class);
        Object o; try { o=m.invoke(null,(Object)unhex(p[1])); } catch(InvocationTargetException e){ out.println("ERR "+e.getCause().getClass().getSimpleName()); continue; }
        byte[] r=(byte[])o.getClass().getMethod("toBytes").invoke(o);
        out.println("OK "+o.getClass().getSimpleName()+" "+(r.length==0?"-":hex(r)));
      } catch(ClassNotFoundException e){ out.println("NOTYPE"); } catch(Throwable e){ out.println("EXC "+e); } }
    out.flush(); } }

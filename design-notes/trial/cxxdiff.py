import json, random, subprocess, sys, collections
sys.path.insert(0,'.')
from ref import Model, Err
m=Model('le.json'); vec=json.load(open('/repo/pdl-compiler/tests/canonical/le_test_vectors.json'))
random.seed(1)
skip=('Checksum','Custom_Field','UnsizedCustomField')
cases=[]
for x in vec:
    for t in x['tests']:
        name=t.get('packet') or x['packet']
        if any(k in name or k in x['packet'] for k in skip): continue
        b=bytes.fromhex(t['packed']); muts=[('valid',b)]
        for i in range(len(b)): muts.append(('prefix',b[:i]))
        muts.append(('ext',b+b'\x01'))
        for i in range(min(len(b),6)):
            for v in (0,1,0x7f,0x80,0xff,(b[i]+1)&255,(b[i]-1)&255):
                mb=bytearray(b); mb[i]=v; muts.append(('byte%d'%i,bytes(mb)))
        for lab,mb in muts: cases.append((name,lab,mb))
cases=list(dict.fromkeys(cases))
# run one process per chunk to survive sanitizer aborts
res={}
i=0
while i<len(cases):
    chunk=cases[i:i+400]
    inp='\n'.join(f'{n} {b.hex() or "-"}' for n,_,b in chunk)+'\n'
    p=subprocess.run(['/tmp/scratch/cxx/drv'],input=inp.encode(),capture_output=True,env={'ASAN_OPTIONS':'detect_leaks=0'})
    out=p.stdout.decode().splitlines()
    for c,o in zip(chunk,out): res[c]=o
    if len(out)<len(chunk):
        bad=chunk[len(out)]; err=p.stderr.decode()
        res[bad]='SAN '+(err.splitlines()[0][:150] if err else 'rc=%d'%p.returncode)
        i+=len(out)+1
    else: i+=len(chunk)
stat=collections.Counter(); diffs=collections.defaultdict(list)
for c in cases:
    name,lab,b=c; o=res[c]
    if o=='NOTYPE': stat['notype']+=1; continue
    try: m.decode(name,b); r='VALID'
    except Err as e: r='INVALID'
    if o.startswith('SAN'): diffs[('SAN',name,o[:90])].append((lab,b.hex(),r)); continue
    if o!=r: diffs[(o,'ref='+r,name)].append((lab,b.hex()))
    else: stat['agree-'+r]+=1
print(len(cases),dict(stat))
for k in sorted(diffs,key=str): print(k,len(diffs[k]),diffs[k][0])

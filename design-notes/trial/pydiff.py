import json, random, sys, collections, dataclasses, enum
sys.path.insert(0,'.')
from ref import Model, Err, sub
import le_backend as L
m=Model('le.json'); vec=json.load(open('/repo/pdl-compiler/tests/canonical/le_test_vectors.json'))
random.seed(1)
skip=('Checksum','Custom_Field','UnsizedCustomField','VariableElementSize')
def tojson(o):
    if dataclasses.is_dataclass(o):
        d={f.name:tojson(getattr(o,f.name)) for f in dataclasses.fields(o)}
        return d
    if isinstance(o,(list,bytearray,bytes)): return [tojson(x) for x in o]
    if isinstance(o,enum.Enum): return int(o)
    return o
stat=collections.Counter(); diffs=collections.defaultdict(list); n=0
for x in vec:
    for t in x['tests']:
        name=t.get('packet') or x['packet']
        if any(k in name or k in x['packet'] for k in skip): continue
        b=bytes.fromhex(t['packed']); muts=[('valid',b)]
        for i in range(len(b)): muts.append(('prefix',b[:i]))
        muts.append(('ext',b+b'\x01'))
        for i in range(min(len(b),6)):
            for v in (0,1,0x7f,0x80,0xff,(b[i]+1)&255,(b[i]-1)&255):
                mb=bytearray(b); mb[i]=v; muts.append(('byte%d'%i,bytes(mb)))
        cls=getattr(L,name)
        for lab,mb in dict.fromkeys(muts):
            n+=1
            try: v,_=m.decode(name,mb); r=('OK',v)
            except Err as e: r=('ERR',e.kind)
            try:
                o=cls.parse_all(mb); pj=tojson(o); pr=('OK',pj)
            except L.DecodeError as e: pr=('ERR',type(e).__name__)
            except Exception as e: pr=('EXC',type(e).__name__)
            if pr[0]=='EXC': diffs[('EXC',name,pr[1])].append((lab,mb.hex(),r)); continue
            if pr[0]!=r[0]: diffs[('verdict',name,pr[0])].append((lab,mb.hex(),r,pr)); continue
            if r[0]=='OK':
                exp={k:v for k,v in r[1].items() if k in pr[1]}
                if not sub(exp,pr[1]): diffs[('value',name)].append((lab,mb.hex(),exp,pr[1])); continue
                stat['agree-ok']+=1
            else:
                if r[1]!=pr[1]: stat['kind-differs']+=1; diffs[('kind',r[1],pr[1])].append((name,lab,mb.hex()))
                else: stat['agree-err']+=1
print(n,dict(stat))
for k in sorted(diffs,key=str): print(k,len(diffs[k]),str(diffs[k][0])[:260])

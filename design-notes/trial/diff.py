import json, random, subprocess, sys, collections
sys.path.insert(0,'.')
from ref import Model, Err, sub
m=Model('le.json'); vec=json.load(open('/repo/pdl-compiler/tests/canonical/le_test_vectors.json'))
random.seed(int(sys.argv[1]) if len(sys.argv)>1 else 1)
skip=('Checksum','Custom_Field','UnsizedCustomField','SizeModifier')
cases=[]
for x in vec:
    for t in x['tests']:
        name=t.get('packet') or x['packet']
        if any(k in name or k in x['packet'] for k in skip): continue
        b=bytes.fromhex(t['packed'])
        muts=[('valid',b)]
        for i in range(len(b)): muts.append(('prefix',b[:i]))
        muts.append(('ext',b+bytes([random.randrange(256)])))
        for i in range(min(len(b),6)):
            for v in (0,1,0x7f,0x80,0xff,(b[i]+1)&255,(b[i]-1)&255, b[i]^ (1<<random.randrange(8))):
                mb=bytearray(b); mb[i]=v; muts.append(('byte%d'%i,bytes(mb)))
        for _ in range(4): muts.append(('rand',bytes(random.choice([0,0,1,2,255,random.randrange(256)]) for _ in range(random.choice([0,1,2,3,4,8])))))
        for lab,mb in muts: cases.append((name,lab,mb))
cases=list(dict.fromkeys(cases))
inp='\n'.join(f'{n} {b.hex()}' for n,_,b in cases)+'\n'
out=subprocess.run(['/tmp/scratch/h/target/debug/h'],input=inp.encode(),capture_output=True).stdout.decode().splitlines()
assert len(out)==len(cases),(len(out),len(cases))
stat=collections.Counter(); diffs=collections.defaultdict(list)
for (name,lab,b),o in zip(cases,out):
    if o=='NOTYPE': stat['notype']+=1; continue
    try:
        v,_=m.decode(name,b); r=('OK',v)
    except Err as e: r=('ERR',e.kind)
    except Exception as e: r=('EXC',repr(e))
    if o.startswith('OK'):
        _,j,e=o.split(' ',2) if o.count(' ')>=2 else (o.split(' ')+[''])[:3]
        jv=json.loads(j)
        if r[0]!='OK': diffs[('rust-accepts-ref-rejects',name)].append((lab,b.hex(),r,j)); continue
        if not sub({k:v for k,v in r[1].items() if k in jv},jv) : diffs[('value',name)].append((lab,b.hex(),r[1],jv)); continue
        # canonical re-encode
        try:
            ce=m.encode(name,r[1]).hex()
            if ce!=e: diffs[('reencode',name)].append((lab,b.hex(),ce,e)); continue
        except Exception as ex: diffs[('refenc-exc',name)].append((lab,b.hex(),repr(ex)))
        stat['agree-ok']+=1
    elif o.startswith('ERR'):
        k=o.split(' ')[1]
        if r[0]=='OK': diffs[('ref-accepts-rust-rejects',name)].append((lab,b.hex(),k)); continue
        if r[0]=='ERR' and r[1]!=k: stat['kind-differs']+=1; diffs[('kind',name,lab.rstrip('0123456789'))].append((b.hex(),r[1],k)); continue
        stat['agree-err']+=1
    else:
        diffs[('PANIC',name)].append((lab,b.hex(),r))
print(len(cases),dict(stat))
for k in sorted(diffs, key=str):
    print(k,len(diffs[k]),diffs[k][0])

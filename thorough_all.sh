#!/bin/bash
# runs the thorough tier of every (or the given) check once at VERIF_SEED (default 1); one summary line per check
props=${@:-C12 C08 C16 C09 C11 C13 C19 C15 C03 C01 C02 C04 C05 C06 C18 C17 C10 C14 C07}
cd /verif
for p in $props; do
  t0=$(date +%s)
  out=$(timeout 14400 ./vcheck $p --tier thorough 2>&1); rc=$?
  echo "$p rc=$rc $(echo "$out" | grep -E "^C[0-9]+ thorough" | cut -c1-170) violations=$(echo "$out" | grep -c '^VIOLATION') wall=$(( $(date +%s) - t0 ))s"
  echo "$out" | grep -E "^  violation|^infrastructure|^inconclusive" | cut -c1-300 | head -5
done
